package ringlab

import (
	"bytes"
	"context"
	"errors"
	"fmt"
	"math/rand"
	"sort"
	"strings"
	"sync"
	"sync/atomic"
	"time"

	"go.miragespace.co/specter/kv/memory"
	"go.miragespace.co/specter/spec/chord"
)

// ChurnCfg describes one "KV clients + concurrent membership churn" execution.
type ChurnCfg struct {
	Name         string `json:"name"`
	Seed         int64  `json:"seed"`
	Initial      int    `json:"initial"`
	Backend      int    `json:"backend"` // Backend
	NetV         bool   `json:"netv"`
	RealRPC      bool   `json:"real_rpc"` // chord.RemoteNode over twirp/HTTP2 on an in-memory transport (production timeouts)
	Keys         int    `json:"keys"`
	Clients      int    `json:"clients"`
	OpsPerClient int    `json:"ops_per_client"`
	SingleWriter bool   `json:"single_writer"` // each key is written by exactly one client
	ChurnG       int    `json:"churn_goroutines"`
	ChurnEvents  int    `json:"churn_events"`
	DelayMicro   int    `json:"delay_micro"`
	LeaveBias    int    `json:"leave_bias"`
	MaxNodes     int    `json:"max_nodes"`
	Leases       bool   `json:"leases"`
	// Ballast: this many write-once keys ("bl0000"...) are stored through the ring before the
	// churn starts and read back once each after quiescence: every hand-over then moves
	// hundreds of keys at once instead of a handful (batching seams, partial transfers)
	Ballast int `json:"ballast,omitempty"`
	// Straggler: occasional long stalls (10-40 ms) at notify.apply / stab.read / stab.update
	Straggler bool `json:"straggler,omitempty"`
}

func BallastKey(i int) string { return fmt.Sprintf("bl%04d", i) }

type OpKind int

const (
	OpPut OpKind = iota
	OpGet
	OpDelete
	OpAppend
	OpRemove
	OpContains
	OpList
)

func (k OpKind) String() string {
	return [...]string{"Put", "Get", "Delete", "Append", "Remove", "Contains", "List"}[k]
}

func (k OpKind) Prefix() bool { return k >= OpAppend }
func (k OpKind) Write() bool  { return k == OpPut || k == OpDelete || k == OpAppend || k == OpRemove }

// OpRec is one attempt of one client operation, recorded at the client boundary.
type OpRec struct {
	Client    int      `json:"client"`
	Seq       int      `json:"seq"`     // logical operation index of that client
	Attempt   int      `json:"attempt"` // attempt number of that logical operation
	Kind      OpKind   `json:"kind"`
	Key       string   `json:"key"`
	Arg       string   `json:"arg,omitempty"`
	Entry     uint64   `json:"entry"`
	Call      int64    `json:"call"`
	Return    int64    `json:"return"`
	Err       string   `json:"err,omitempty"`
	Retryable bool     `json:"retryable,omitempty"`
	Conflict  bool     `json:"conflict,omitempty"` // the documented semantic conflict of this op
	Value     string   `json:"value,omitempty"`    // Get
	Bool      bool     `json:"bool,omitempty"`     // Contains
	List      []string `json:"list,omitempty"`     // List (sorted)
	Final     bool     `json:"final,omitempty"`    // read issued after quiescence
	Timeout   bool     `json:"timeout,omitempty"`  // the (proxied) call timed out: it may still take effect later
}

// Span is the part of a node's life the harness is sure about (lab clock, microseconds):
// Joined = its Join/Create had returned; LeaveStart = its Leave was about to be called.
type Span struct {
	JoinStart  int64 // its Join was about to be called (0: initial member)
	Joined     int64
	LeaveStart int64 // 0 = never asked to leave
	Left       int64 // 0 = did not leave
}

type ChurnResult struct {
	Timeline       map[uint64]*Span
	Ops            []OpRec
	Live           []uint64
	Converge       Convergence
	Stores         map[uint64][]string // raw keys per live node (RangeKeys(0,0)) after quiescence
	StoreErr       string
	Listed         map[uint64][]string // keys per live node as reported by the store's ListKeys("")
	MemberLog      []string
	JoinsOK        int
	JoinsFailed    int
	LeavesDone     int
	LeavesGave     int
	Abandoned      int // logical operations that never succeeded within the attempt bound
	EventSig       string
	Setup          string // non-empty: the scenario could not be set up (inconclusive)
	Watchdog       string
	StoreEventsFor func(key string) []StoreEvent `json:"-"`
	// PredRegressions: what the predecessor-pointer monitor saw (see Options.MonitorPred)
	PredRegressions []PredRegression
	PredSamples     int64
	// HiddenResidue: data still returned by a live node's store for keys its range scan does not list
	HiddenResidue []string
	// OverlapSig: the set of kinds of membership operations whose windows overlapped in time, by ring
	// distance of the two nodes (a coarse, readable abstraction of the interleaving)
	OverlapSig string
	Stragglers int64
	KVTimeouts int64
	HookLog    []string
}

var t0 = time.Now()

func mono() int64 { return int64(time.Since(t0)) }

// KeyName returns the i-th key of the workload.
func KeyName(i int) string { return fmt.Sprintf("k%02d", i) }

type churnRun struct {
	cfg ChurnCfg
	lab *Lab

	hmu     sync.Mutex
	joined  []*Member
	leaving map[uint64]bool

	omu sync.Mutex
	ops []OpRec
	log []string
}

func (c *churnRun) logf(f string, a ...any) {
	c.omu.Lock()
	c.log = append(c.log, fmt.Sprintf("[%d] ", mono()/1000)+fmt.Sprintf(f, a...))
	c.omu.Unlock()
}

func (c *churnRun) record(o OpRec) {
	c.omu.Lock()
	c.ops = append(c.ops, o)
	c.omu.Unlock()
}

// entry picks a member that the harness believes to be serving.
func (c *churnRun) entry(r *rand.Rand) *Member {
	c.hmu.Lock()
	defer c.hmu.Unlock()
	cands := make([]*Member, 0, len(c.joined))
	for _, m := range c.joined {
		if !c.leaving[m.ID] {
			cands = append(cands, m)
		}
	}
	if len(cands) == 0 {
		cands = c.joined
	}
	return cands[r.Intn(len(cands))]
}

// exec performs one attempt and records it.
func (c *churnRun) exec(r *rand.Rand, o OpRec) OpRec {
	m := c.entry(r)
	o.Entry = m.ID
	ctx, cancel := context.WithTimeout(context.Background(), 30*time.Second)
	defer cancel()
	var err error
	key := []byte(o.Key)
	o.Call = mono()
	switch o.Kind {
	case OpPut:
		err = m.Node.Put(ctx, key, []byte(o.Arg))
	case OpGet:
		var v []byte
		v, err = m.Node.Get(ctx, key)
		o.Value = string(v)
	case OpDelete:
		err = m.Node.Delete(ctx, key)
	case OpAppend:
		err = m.Node.PrefixAppend(ctx, key, []byte(o.Arg))
	case OpRemove:
		err = m.Node.PrefixRemove(ctx, key, []byte(o.Arg))
	case OpContains:
		o.Bool, err = m.Node.PrefixContains(ctx, key, []byte(o.Arg))
	case OpList:
		var l [][]byte
		l, err = m.Node.PrefixList(ctx, key)
		for _, x := range l {
			o.List = append(o.List, string(x))
		}
		sort.Strings(o.List)
	}
	o.Return = mono()
	if err != nil {
		o.Err = err.Error()
		o.Retryable = chord.ErrorIsRetryable(err)
		o.Timeout = errors.Is(err, context.DeadlineExceeded)
		if _, defined := chord.ErrorCanonical(err); c.cfg.RealRPC && !defined {
			// over the real RPC path an error that is not a DHT error is a transport failure
			// (connection refused by a node that just left, stream reset, request cancelled):
			// like a timeout it says nothing about whether the call was executed
			o.Timeout = true
		}
		if (o.Kind == OpAppend && errors.Is(err, chord.ErrKVPrefixConflict)) ||
			((o.Kind == OpPut || o.Kind == OpDelete) && errors.Is(err, chord.ErrKVSimpleConflict)) {
			o.Conflict = true
		}
	}
	c.record(o)
	return o
}

// RunChurnKV executes the scenario. The caller applies the oracles.
func RunChurnKV(cfg ChurnCfg, scratch string) *ChurnResult {
	res := &ChurnResult{Stores: map[uint64][]string{}, Listed: map[uint64][]string{}, Timeline: map[uint64]*Span{}}
	var tlMu sync.Mutex
	mark := func(id uint64, f func(sp *Span)) {
		tlMu.Lock()
		sp := res.Timeline[id]
		if sp == nil {
			sp = &Span{}
			res.Timeline[id] = sp
		}
		f(sp)
		tlMu.Unlock()
	}
	nowUs := func() int64 { return mono() / 1000 }
	mode := Direct
	if cfg.NetV {
		mode = NetV
	}
	if cfg.RealRPC {
		mode = RealRPC
	}
	lopt := Options{Mode: mode, Seed: cfg.Seed, HookDelayMaxMicro: cfg.DelayMicro, RecordEvents: true, RecordStores: true, ScratchDir: scratch, MonitorPred: !cfg.RealRPC}
	if cfg.Straggler {
		lopt.StragglerPoints = map[string]bool{"notify.apply": true, "stab.read": true, "stab.update": true}
		lopt.StragglerOneIn = 12
		lopt.StragglerMicro = 40000
	}
	lab := New(lopt)
	defer lab.Close()
	c := &churnRun{cfg: cfg, lab: lab, leaving: map[uint64]bool{}}
	if !cfg.SingleWriter {
		// widen the gap between "entry fetched" and "entry used" inside the memory store (also
		// under AOF): concurrent operations on one key interleave there
		var hmu sync.Mutex
		hr := rand.New(rand.NewSource(cfg.Seed ^ 0x5eed))
		memory.VerifSetHook(func(string) {
			hmu.Lock()
			x := hr.Intn(12)
			d := 20 + hr.Intn(200)
			hmu.Unlock()
			switch {
			case x < 2:
				runtimeGosched()
			case x < 4:
				time.Sleep(time.Duration(d) * time.Microsecond)
			}
		})
		defer memory.VerifSetHook(nil)
	}
	rng := rand.New(rand.NewSource(cfg.Seed))
	used := map[uint64]bool{}
	newID := func(r *rand.Rand) uint64 {
		for {
			id := r.Uint64() % M
			c.hmu.Lock()
			ok := !used[id]
			used[id] = true
			c.hmu.Unlock()
			if ok {
				return id
			}
		}
	}
	be := Backend(cfg.Backend)
	first, err := lab.Spawn(newID(rng), be)
	if err != nil {
		res.Setup = "spawn: " + err.Error()
		return res
	}
	if err := first.Create(); err != nil {
		res.Setup = "create: " + err.Error()
		return res
	}
	defer lab.StopAll()
	c.joined = append(c.joined, first)
	mark(first.ID, func(sp *Span) { sp.Joined = 1 })
	for i := 1; i < cfg.Initial; i++ {
		m, err := lab.Spawn(newID(rng), be)
		if err != nil {
			res.Setup = "spawn: " + err.Error()
			return res
		}
		via := c.joined[rng.Intn(len(c.joined))]
		var jerr error
		for a := 0; a < 5; a++ {
			if jerr = m.Join(via); jerr == nil {
				break
			}
			time.Sleep(10 * time.Millisecond)
		}
		if jerr != nil {
			res.Setup = fmt.Sprintf("initial join failed: %v", jerr)
			return res
		}
		c.joined = append(c.joined, m)
		mark(m.ID, func(sp *Span) { sp.Joined = 1 })
	}
	if cv := lab.WaitConverged(int64(6*cfg.Initial+20), time.Minute, false); !cv.Converged {
		res.Setup = "initial ring did not stabilise: " + cv.Diff
		return res
	}

	leaseStart := time.Now()
	if cfg.Leases {
		// lease-only keys with the minimum TTL: they are expired (but still stored) by the time
		// the second churn phase moves their ranges
		for i := 0; i < 8; i++ {
			key := []byte(fmt.Sprintf("lz%02d", i))
			for a := 0; a < 200; a++ {
				_, err := c.entry(rng).Node.Acquire(context.Background(), key, time.Second)
				if err == nil || !chord.ErrorIsRetryable(err) {
					break
				}
				time.Sleep(2 * time.Millisecond)
			}
		}
		leaseStart = time.Now()
	}
	if cfg.Ballast > 0 {
		br := rand.New(rand.NewSource(cfg.Seed + 4242))
		for i := 0; i < cfg.Ballast; i++ {
			o := OpRec{Client: 900, Seq: i, Kind: OpPut, Key: BallastKey(i), Arg: BallastKey(i) + "/v"}
			for a := 0; a < 400; a++ {
				o.Attempt = a
				if out := c.exec(br, o); out.Err == "" {
					break
				}
				time.Sleep(time.Millisecond)
			}
		}
	}
	var wg sync.WaitGroup
	var stopChurn atomic.Bool
	var abandoned atomic.Int64
	// ---- clients
	for cl := 0; cl < cfg.Clients; cl++ {
		wg.Add(1)
		go func(cl int) {
			defer wg.Done()
			r := rand.New(rand.NewSource(cfg.Seed*1000 + int64(cl)))
			var myKeys []int
			for k := 0; k < cfg.Keys; k++ {
				if !cfg.SingleWriter || k%cfg.Clients == cl {
					myKeys = append(myKeys, k)
				}
			}
			if len(myKeys) == 0 {
				return
			}
			for seq := 0; seq < cfg.OpsPerClient; seq++ {
				k := myKeys[r.Intn(len(myKeys))]
				o := OpRec{Client: cl, Seq: seq, Key: KeyName(k)}
				hot := !cfg.SingleWriter && r.Intn(100) < 35
				if hot {
					// contention on one mostly-empty key: deletes of the (empty) value racing with
					// first appends, removes and membership tests of a single child
					o.Key = KeyName(0)
				}
				switch x := r.Intn(100); {
				case hot && x < 30:
					o.Kind = OpDelete
				case hot && x < 55:
					o.Kind, o.Arg = OpAppend, "ch0"
				case hot && x < 75:
					o.Kind, o.Arg = OpRemove, "ch0"
				case hot && x < 90:
					o.Kind, o.Arg = OpContains, "ch0"
				case hot:
					o.Kind = OpList
				case x < 22:
					o.Kind, o.Arg = OpPut, fmt.Sprintf("%s/c%d/s%d", o.Key, cl, seq)
				case x < 32:
					o.Kind = OpDelete
				case x < 50:
					o.Kind = OpGet
				case x < 65:
					o.Kind, o.Arg = OpAppend, fmt.Sprintf("ch%d", r.Intn(3))
				case x < 75:
					o.Kind, o.Arg = OpRemove, fmt.Sprintf("ch%d", r.Intn(3))
				case x < 87:
					o.Kind, o.Arg = OpContains, fmt.Sprintf("ch%d", r.Intn(3))
				default:
					o.Kind = OpList
				}
				maxAttempts := 400
				if !cfg.SingleWriter {
					maxAttempts = 6 // multi-writer: every attempt is its own operation in the history
				}
				ok := false
				for a := 0; a < maxAttempts; a++ {
					o.Attempt = a
					out := c.exec(r, o)
					if out.Err == "" || out.Conflict {
						ok = true
						break
					}
					time.Sleep(time.Duration(500+r.Intn(2500)) * time.Microsecond)
				}
				if !ok && cfg.SingleWriter {
					abandoned.Add(1)
				}
			}
		}(cl)
	}
	// ---- churn
	perG := cfg.ChurnEvents / max(1, cfg.ChurnG)
	var cwg sync.WaitGroup
	var cmu sync.Mutex
	for g := 0; g < cfg.ChurnG; g++ {
		cwg.Add(1)
		go func(g int) {
			defer cwg.Done()
			r := rand.New(rand.NewSource(cfg.Seed*7777 + int64(g)))
			for e := 0; e < perG && !stopChurn.Load(); e++ {
				time.Sleep(time.Duration(r.Intn(3000)) * time.Microsecond)
				c.hmu.Lock()
				n := len(c.joined) - len(c.leaving)
				c.hmu.Unlock()
				leave := r.Intn(100) < cfg.LeaveBias
				if n <= 1 {
					leave = false
				}
				if cfg.MaxNodes > 0 && n >= cfg.MaxNodes {
					leave = true
				}
				if leave {
					c.hmu.Lock()
					cands := []*Member{}
					for _, m := range c.joined {
						if !c.leaving[m.ID] {
							cands = append(cands, m)
						}
					}
					if len(cands) <= 1 {
						c.hmu.Unlock()
						continue
					}
					m := cands[r.Intn(len(cands))]
					c.leaving[m.ID] = true
					c.hmu.Unlock()
					c.logf("g%d leave %d ...", g, m.ID)
					mark(m.ID, func(sp *Span) { sp.LeaveStart = nowUs() })
					m.Leave()
					st := m.State()
					if st == chord.Left {
						mark(m.ID, func(sp *Span) { sp.Left = nowUs() })
					} else {
						mark(m.ID, func(sp *Span) { sp.LeaveStart = 0 }) // gave up: still a member (its locks were released)
					}
					c.logf("g%d leave %d -> %s", g, m.ID, st)
					c.hmu.Lock()
					delete(c.leaving, m.ID)
					if st == chord.Left {
						for i, x := range c.joined {
							if x == m {
								c.joined = append(c.joined[:i], c.joined[i+1:]...)
								break
							}
						}
					}
					c.hmu.Unlock()
					cmu.Lock()
					if st == chord.Left {
						res.LeavesDone++
					} else {
						res.LeavesGave++
					}
					cmu.Unlock()
				} else {
					via := c.entry(r)
					m, err := lab.Spawn(newID(r), be)
					if err != nil {
						continue
					}
					c.logf("g%d join %d via %d ...", g, m.ID, via.ID)
					mark(m.ID, func(sp *Span) { sp.JoinStart = nowUs() })
					err = m.Join(via)
					if err == nil {
						mark(m.ID, func(sp *Span) { sp.Joined = nowUs() })
					}
					c.logf("g%d join %d via %d -> %v", g, m.ID, via.ID, err)
					cmu.Lock()
					if err == nil {
						res.JoinsOK++
					} else {
						res.JoinsFailed++
					}
					cmu.Unlock()
					if err == nil {
						c.hmu.Lock()
						c.joined = append(c.joined, m)
						c.hmu.Unlock()
					}
				}
			}
		}(g)
	}
	done := make(chan struct{})
	go func() { wg.Wait(); stopChurn.Store(true); cwg.Wait(); close(done) }()
	select {
	case <-done:
	case <-time.After(5 * time.Minute):
		res.Watchdog = "clients/churn did not finish"
		res.Ops = c.ops
		res.MemberLog = c.log
		return res
	}
	res.Abandoned = int(abandoned.Load())

	if cfg.Leases {
		if d := 1200*time.Millisecond - time.Since(leaseStart); d > 0 {
			time.Sleep(d) // real time: the leases must have run out (the store reads the wall clock)
		}
		r2 := rand.New(rand.NewSource(cfg.Seed + 4242))
		for e := 0; e < 6; e++ {
			if e%3 == 2 && len(lab.Live()) > 2 {
				lm := c.entry(r2)
				mark(lm.ID, func(sp *Span) { sp.LeaveStart = nowUs() })
				lm.Leave()
				if lm.State() == chord.Left {
					mark(lm.ID, func(sp *Span) { sp.Left = nowUs() })
				} else {
					mark(lm.ID, func(sp *Span) { sp.LeaveStart = 0 })
				}
			} else {
				m, err := lab.Spawn(newID(r2), be)
				if err == nil {
					mark(m.ID, func(sp *Span) { sp.JoinStart = nowUs() })
					if m.Join(c.entry(r2)) == nil {
						mark(m.ID, func(sp *Span) { sp.Joined = nowUs() })
						c.hmu.Lock()
						c.joined = append(c.joined, m)
						c.hmu.Unlock()
						res.JoinsOK++
					}
				}
			}
			c.hmu.Lock()
			kept := c.joined[:0]
			for _, m := range c.joined {
				if m.IsMember() {
					kept = append(kept, m)
				}
			}
			c.joined = kept
			c.hmu.Unlock()
		}
	}
	// ---- quiescence
	n := int64(len(lab.Live()))
	res.Converge = lab.WaitConverged(6*n+20, 3*time.Minute, true)
	for _, m := range lab.Live() {
		res.Live = append(res.Live, m.ID)
	}
	if res.Converge.Converged {
		// final reads from every live node, sequential, after quiescence
		fr := rand.New(rand.NewSource(cfg.Seed + 99))
		for _, m := range lab.Live() {
			for k := 0; k < cfg.Keys; k++ {
				for _, kind := range []OpKind{OpGet, OpList} {
					o := OpRec{Client: 1000, Kind: kind, Key: KeyName(k), Final: true}
					var out OpRec
					for a := 0; a < 50; a++ {
						o.Attempt = a
						out = c.execOn(m, o)
						if out.Err == "" {
							break
						}
						if out.Timeout {
							time.Sleep(50 * time.Millisecond) // transport trouble on the real RPC path: give it time
						}
						time.Sleep(2 * time.Millisecond)
					}
					_ = fr
				}
			}
		}
		// the ballast: each key read back once, through a rotating live node
		if live := lab.Live(); cfg.Ballast > 0 && len(live) > 0 {
			for i := 0; i < cfg.Ballast; i++ {
				o := OpRec{Client: 1000, Kind: OpGet, Key: BallastKey(i), Final: true}
				for a := 0; a < 50; a++ {
					o.Attempt = a
					out := c.execOn(live[i%len(live)], o)
					if out.Err == "" {
						break
					}
					if out.Timeout {
						time.Sleep(50 * time.Millisecond)
					}
					time.Sleep(2 * time.Millisecond)
				}
			}
		}
		// raw stores
		for _, m := range lab.Live() {
			keys, err := m.Node.VerifKV().RangeKeys(context.Background(), 0, 0)
			if err != nil {
				res.StoreErr = err.Error()
				break
			}
			for _, k := range keys {
				res.Stores[m.ID] = append(res.Stores[m.ID], string(k))
			}
			sort.Strings(res.Stores[m.ID])
			// residue: data a store still returns for a key that its own range scan does not list
			// (rows left behind by a hand-over: invisible now, but they come back to life when the key
			// is imported again)
			{
				var ks [][]byte
				for k := 0; k < cfg.Keys; k++ {
					ks = append(ks, []byte(KeyName(k)))
				}
				listed := map[string]bool{}
				for _, k := range res.Stores[m.ID] {
					listed[k] = true
				}
				if exp, err := m.Node.VerifKV().Export(context.Background(), ks); err == nil && len(exp) == len(ks) {
					for i, e := range exp {
						if listed[string(ks[i])] || e == nil {
							continue
						}
						if len(e.GetSimpleValue()) > 0 || len(e.GetPrefixChildren()) > 0 {
							var cs []string
							for _, c := range e.GetPrefixChildren() {
								cs = append(cs, string(c))
							}
							res.HiddenResidue = append(res.HiddenResidue, fmt.Sprintf("node %d (%s): key %s is not listed by RangeKeys(0,0), yet Export returns value %q children %q", m.ID, m.Backend, ks[i], e.GetSimpleValue(), cs))
						}
					}
				}
			}
			// what the store lists (a second view: listing does not go through the range scan)
			if listed, err := m.Node.VerifKV().ListKeys(context.Background(), nil); err == nil {
				seen := map[string]bool{}
				for _, kc := range listed {
					if k := string(kc.GetKey()); !seen[k] {
						seen[k] = true
						res.Listed[m.ID] = append(res.Listed[m.ID], k)
					}
				}
				sort.Strings(res.Listed[m.ID])
			}
		}
	}
	// distinctness signature: interleaving of membership hook events across nodes
	var sb bytes.Buffer
	idx := map[uint64]int{}
	for _, e := range lab.Events() {
		if _, ok := idx[e.Node]; !ok {
			idx[e.Node] = len(idx)
		}
		fmt.Fprintf(&sb, "%s@%d;", e.Point, idx[e.Node])
	}
	res.EventSig = sb.String()
	res.OverlapSig = overlapSig(res.Timeline, nowUs())
	res.Ops = c.ops
	res.MemberLog = c.log
	// the store-level record is cut here: the teardown that follows (every node leaves, exporting
	// and removing its keys) is not part of the judged history and must not enter the classifiers
	cut := mono() / 1000
	res.StoreEventsFor = func(key string) []StoreEvent {
		all := lab.StoreEventsFor(key)
		out := all[:0:0]
		for _, e := range all {
			if e.T <= cut {
				out = append(out, e)
			}
		}
		return out
	}
	for _, e := range lab.Events() {
		res.HookLog = append(res.HookLog, fmt.Sprintf("[%d] %s @%d", e.T, e.Point, e.Node))
	}
	res.KVTimeouts = counter(&lab.Calls, "kv-timeouts").Load()
	res.PredRegressions = lab.PredRegressions()
	res.Stragglers = lab.Hits("straggler:notify.apply") + lab.Hits("straggler:stab.read") + lab.Hits("straggler:stab.update")
	res.PredSamples = lab.Hits("stab.done") + lab.Hits("fix.done") + lab.Hits("cp.done") + lab.Hits("notify.applied")
	return res
}

// execOn performs one attempt through a given entry node.
func (c *churnRun) execOn(m *Member, o OpRec) OpRec {
	r := rand.New(rand.NewSource(1))
	save := c.joined
	c.hmu.Lock()
	c.joined = []*Member{m}
	c.hmu.Unlock()
	out := c.exec(r, o)
	c.hmu.Lock()
	c.joined = save
	c.hmu.Unlock()
	return out
}

// overlapSig abstracts an execution to the set of {join,leave} x {join,leave} pairs whose
// windows [start, end] overlapped, each tagged with how far apart the two nodes are in ring
// order (adjacent / one node between / farther), plus whether a failed or abandoned attempt
// took part.
func overlapSig(tl map[uint64]*Span, now int64) string {
	type win struct {
		id         uint64
		kind       string
		from, to   int64
		incomplete bool
	}
	var ids []uint64
	var wins []win
	for id, sp := range tl {
		ids = append(ids, id)
		if sp.JoinStart != 0 {
			w := win{id: id, kind: "join", from: sp.JoinStart, to: sp.Joined}
			if w.to == 0 {
				w.to, w.incomplete = now, true
			}
			wins = append(wins, w)
		}
		if sp.LeaveStart != 0 {
			w := win{id: id, kind: "leave", from: sp.LeaveStart, to: sp.Left}
			if w.to == 0 {
				w.to, w.incomplete = now, true
			}
			wins = append(wins, w)
		}
	}
	sort.Slice(ids, func(i, j int) bool { return ids[i] < ids[j] })
	rank := map[uint64]int{}
	for i, id := range ids {
		rank[id] = i
	}
	set := map[string]bool{}
	for i := range wins {
		for j := i + 1; j < len(wins); j++ {
			a, b := wins[i], wins[j]
			if a.id == b.id || a.from > b.to || b.from > a.to {
				continue
			}
			d := rank[a.id] - rank[b.id]
			if d < 0 {
				d = -d
			}
			if n := len(ids); d > n-d {
				d = n - d
			}
			dist := "far"
			switch d {
			case 1:
				dist = "adjacent"
			case 2:
				dist = "one-between"
			}
			k := []string{a.kind, b.kind}
			sort.Strings(k)
			s := k[0] + "||" + k[1] + ":" + dist
			if a.incomplete || b.incomplete {
				s += ":with-failed-attempt"
			}
			set[s] = true
		}
	}
	var out []string
	for s := range set {
		out = append(out, s)
	}
	sort.Strings(out)
	if len(out) == 0 {
		return "no-overlap"
	}
	return strings.Join(out, ",")
}
