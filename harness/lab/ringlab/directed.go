package ringlab

import (
	"context"
	"fmt"
	"math/rand"
	"sort"
	"sync/atomic"
	"time"

	"go.miragespace.co/specter/spec/chord"
)

// Directed schedules: hook-ordered executions in which one step of an operation is held at a
// hook point while another operation runs to completion. Random churn reaches these orders once
// in hundreds of executions; here they are constructed.

// DirectedResult is what one directed schedule observed.
type DirectedResult struct {
	Name       string
	Setup      string // non-empty: the schedule could not be constructed (inconclusive)
	Windows    map[string]bool
	Regress    []PredRegression
	Findings   []Finding
	Trace      []string
	PredAtEnd  string
	NotifyHeld bool
}

func (d *DirectedResult) logf(f string, a ...any) {
	d.Trace = append(d.Trace, fmt.Sprintf("[%d] ", mono()/1000)+fmt.Sprintf(f, a...))
}

func waitUntil(f func() bool, d time.Duration) bool {
	dl := time.Now().Add(d)
	for !f() {
		if time.Now().After(dl) {
			return false
		}
		time.Sleep(200 * time.Microsecond)
	}
	return true
}

// RunNotifyHeldOverJoin: consecutive members P < L < S. L leaves while the periodic tasks are
// parked, so S still names L. The first Notify(P) that reaches S afterwards finds L dead and is
// held right before it applies its candidate; a second Notify(P) repairs the pointer (S.pred = P);
// then a node J joins between P and S (S.pred = J, keys (P,J] handed to J). Only then is the first
// Notify released. It must leave S.pred alone (its snapshot is two generations old). Afterwards a
// value written through S for a key owned by J must be visible through P and J.
func RunNotifyHeldOverJoin(seed int64, netv bool, backend Backend) *DirectedResult {
	res := &DirectedResult{Name: "notify-held-over-join", Windows: map[string]bool{}}
	mode := Direct
	if netv {
		mode = NetV
	}
	lab := New(Options{Mode: mode, Seed: seed, MonitorPred: true, RecordEvents: true})
	defer lab.Close()
	rng := rand.New(rand.NewSource(seed))
	n := 3 + rng.Intn(4)
	idset := map[uint64]bool{}
	var ids []uint64
	for len(ids) < n {
		id := rng.Uint64() % M
		// leave room for J between any two neighbours
		if !idset[id] && !idset[id+1] && !idset[id-1] {
			idset[id] = true
			ids = append(ids, id)
		}
	}
	order := append([]uint64{}, ids...)
	sort.Slice(ids, func(i, j int) bool { return ids[i] < ids[j] })
	var members []*Member
	for i, id := range order {
		m, err := lab.Spawn(id, backend)
		if err != nil {
			res.Setup = err.Error()
			return res
		}
		if i == 0 {
			if err := m.Create(); err != nil {
				res.Setup = err.Error()
				return res
			}
		} else {
			var jerr error
			for a := 0; a < 10; a++ {
				if jerr = m.Join(members[rng.Intn(len(members))]); jerr == nil {
					break
				}
				time.Sleep(10 * time.Millisecond)
			}
			if jerr != nil {
				lab.StopAll()
				res.Setup = "setup join: " + jerr.Error()
				return res
			}
		}
		members = append(members, m)
	}
	defer lab.StopAll()
	if cv := lab.WaitConverged(int64(6*n+20), time.Minute, false); !cv.Converged {
		res.Setup = "setup ring did not stabilise: " + cv.Diff
		return res
	}
	// some data everywhere
	for i := 0; i < 24; i++ {
		_ = members[0].Node.Put(context.Background(), []byte(fmt.Sprintf("dir-%02d", i)), []byte("v0"))
	}
	at := rng.Intn(n)
	P, L, S := lab.Member(ids[at]), lab.Member(ids[(at+1)%n]), lab.Member(ids[(at+2)%n])
	res.logf("ring %v: P=%d L=%d S=%d", ids, P.ID, L.ID, S.ID)
	if !lab.FreezePeriodic(20 * time.Second) {
		res.Setup = "periodic tasks could not be parked"
		return res
	}
	L.Leave()
	if L.State() != chord.Left {
		res.Setup = "L did not leave: " + L.State().String()
		return res
	}
	if id, ok := S.Node.VerifPredecessorID(); !ok || id != L.ID {
		// the leave itself already repaired the pointer: nothing to hold a Notify over
		res.Setup = fmt.Sprintf("after L left, S names %d/%v instead of L", id, ok)
		return res
	}
	res.Windows["S still names the departed L"] = true
	hold := make(chan struct{})
	var first, held atomic.Bool
	lab.On("notify.apply", func(_ string, node uint64) {
		if node == S.ID && first.CompareAndSwap(false, true) {
			held.Store(true)
			select {
			case <-hold:
			case <-time.After(30 * time.Second):
			}
		}
	})
	lab.Unfreeze()
	if !waitUntil(held.Load, 10*time.Second) {
		close(hold)
		res.Setup = "no Notify reached S after L left"
		return res
	}
	res.NotifyHeld = true
	res.logf("first Notify at S is held before it applies its candidate")
	// a later Notify repairs the pointer. In this wiring a Notify runs on the notifier's own stabilize
	// goroutine, which is the one being held; the second round is triggered the way a neighbour does
	// it: the "update your pointers" advisory (FinishLeave(stabilize, no release)), which runs a
	// stabilize round on P in the caller's goroutine
	go func() { _ = P.Node.FinishLeave(true, false) }()
	if !waitUntil(func() bool { id, ok := S.Node.VerifPredecessorID(); return ok && id == P.ID }, 10*time.Second) {
		close(hold)
		res.Setup = "S.pred was not repaired to P by a second Notify"
		return res
	}
	res.Windows["a second Notify repaired S.pred to P"] = true
	res.logf("S.pred = P")
	// J joins between P and S
	var jid uint64
	span := (S.ID + M - P.ID) % M
	for {
		jid = (P.ID + 1 + rng.Uint64()%(span-1)) % M
		if lab.Member(jid) == nil {
			break
		}
	}
	J, err := lab.Spawn(jid, backend)
	if err != nil {
		close(hold)
		res.Setup = err.Error()
		return res
	}
	var jerr error
	for a := 0; a < 40; a++ {
		if jerr = J.Join(S); jerr == nil {
			break
		}
		if !chord.ErrorIsRetryable(jerr) {
			break
		}
		time.Sleep(5 * time.Millisecond)
	}
	if jerr != nil {
		close(hold)
		res.Setup = "J could not join between P and S: " + jerr.Error()
		return res
	}
	if id, ok := S.Node.VerifPredecessorID(); ok && id == J.ID {
		res.Windows["J joined between P and S while the first Notify was held"] = true
	}
	res.logf("J=%d joined, S.pred = J", J.ID)
	applied := lab.Hits("notify.applied")
	close(hold)
	waitUntil(func() bool { return lab.Hits("notify.applied") > applied }, 5*time.Second)
	id, ok := S.Node.VerifPredecessorID()
	res.PredAtEnd = fmt.Sprintf("%d/%v", id, ok)
	res.logf("held Notify released; S.pred = %s", res.PredAtEnd)
	if ok && id != J.ID && J.State() == chord.Active {
		res.Findings = append(res.Findings, Finding{Key: "stale-notify-overwrote-newer-predecessor", What: fmt.Sprintf("a Notify(%d) that had found S's old predecessor %d dead and was held up before applying replaced the predecessor %d that had joined in the meantime: S=%d now names %d", P.ID, L.ID, J.ID, S.ID, id),
			Witness: map[string]any{"trace": res.Trace, "ring": ids, "P": P.ID, "L": L.ID, "S": S.ID, "J": J.ID}})
	}
	// a value written through S for a key J owns must be visible through P and J
	var key string
	for i := 0; i < 100000; i++ {
		k := fmt.Sprintf("dk-%d", i)
		if chord.Between(P.ID, chord.Hash([]byte(k)), J.ID, true) {
			key = k
			break
		}
	}
	if key != "" {
		val := fmt.Sprintf("written-through-S-%d", seed)
		var perr error
		for a := 0; a < 200; a++ {
			if perr = S.Node.Put(context.Background(), []byte(key), []byte(val)); perr == nil || !chord.ErrorIsRetryable(perr) {
				break
			}
			time.Sleep(time.Millisecond)
		}
		if perr == nil {
			for _, via := range []*Member{P, J} {
				var got []byte
				var gerr error
				for a := 0; a < 200; a++ {
					if got, gerr = via.Node.Get(context.Background(), []byte(key)); gerr == nil || !chord.ErrorIsRetryable(gerr) {
						break
					}
					time.Sleep(time.Millisecond)
				}
				if gerr == nil && string(got) != val {
					res.Findings = append(res.Findings, Finding{Key: "acknowledged-write-invisible-after-held-notify", What: fmt.Sprintf("Put(%s) acknowledged through S=%d (key owned by J=%d) is not visible through %d: got %q", key, S.ID, J.ID, via.ID, got),
						Witness: map[string]any{"trace": res.Trace, "ring": ids, "P": P.ID, "L": L.ID, "S": S.ID, "J": J.ID, "key": key}})
				}
			}
			res.Windows["a write through S for a key of J was acknowledged and read back"] = true
		}
	}
	res.Regress = lab.PredRegressions()
	for i, r := range res.Regress {
		if i >= 2 {
			break
		}
		key := "predecessor-moved-away-from-live-node"
		if r.Succ {
			key = "successor-moved-away-from-live-node"
		}
		res.Findings = append(res.Findings, Finding{Key: key, What: r.String(), Witness: map[string]any{"trace": res.Trace, "regression": r}})
	}
	return res
}

// buildRing creates a converged ring of n members with ids that leave room between neighbours.
func buildRing(lab *Lab, rng *rand.Rand, n int, backend Backend) (ids []uint64, members []*Member, setup string) {
	idset := map[uint64]bool{}
	for len(ids) < n {
		id := rng.Uint64() % M
		if !idset[id] && !idset[id+1] && !idset[id-1] && !idset[id+2] && !idset[id-2] {
			idset[id] = true
			ids = append(ids, id)
		}
	}
	order := append([]uint64{}, ids...)
	sort.Slice(ids, func(i, j int) bool { return ids[i] < ids[j] })
	for i, id := range order {
		m, err := lab.Spawn(id, backend)
		if err != nil {
			return nil, nil, err.Error()
		}
		if i == 0 {
			if err := m.Create(); err != nil {
				return nil, nil, err.Error()
			}
		} else {
			var jerr error
			for a := 0; a < 10; a++ {
				if jerr = m.Join(members[rng.Intn(len(members))]); jerr == nil {
					break
				}
				time.Sleep(10 * time.Millisecond)
			}
			if jerr != nil {
				lab.StopAll()
				return nil, nil, "setup join: " + jerr.Error()
			}
		}
		members = append(members, m)
	}
	if cv := lab.WaitConverged(int64(6*n+20), time.Minute, false); !cv.Converged {
		lab.StopAll()
		return nil, nil, "setup ring did not stabilise: " + cv.Diff
	}
	return ids, members, ""
}

func between(lo, hi uint64, rng *rand.Rand, lab *Lab) uint64 {
	span := (hi + M - lo) % M
	for {
		id := (lo + 1 + rng.Uint64()%(span-1)) % M
		if lab.Member(id) == nil {
			return id
		}
	}
}

// RunJoinBehindDeparted: consecutive members P < L < S, with data in L's range. L leaves while the
// periodic tasks are parked (its keys go to S, S still names L as predecessor). Then J joins right
// behind the departed node, between L and S, asking S directly. Until S's predecessor pointer is
// repaired the range to hand to J cannot be derived (L's former keys now belong to J as well), so
// the join has to wait; once the ring is quiet every stored key must sit on its owner.
func RunJoinBehindDeparted(seed int64, netv bool, backend Backend) *DirectedResult {
	res := &DirectedResult{Name: "join-behind-departed", Windows: map[string]bool{}}
	mode := Direct
	if netv {
		mode = NetV
	}
	lab := New(Options{Mode: mode, Seed: seed, MonitorPred: true, RecordEvents: true})
	defer lab.Close()
	rng := rand.New(rand.NewSource(seed))
	n := 3 + rng.Intn(4)
	ids, members, setup := buildRing(lab, rng, n, backend)
	if setup != "" {
		res.Setup = setup
		return res
	}
	defer lab.StopAll()
	at := rng.Intn(n)
	P, L, S := lab.Member(ids[at]), lab.Member(ids[(at+1)%n]), lab.Member(ids[(at+2)%n])
	res.logf("ring %v: P=%d L=%d S=%d", ids, P.ID, L.ID, S.ID)
	// data everywhere, and certainly in L's range
	ctx := context.Background()
	inL := 0
	for i := 0; i < 4000 && inL < 12; i++ {
		k := fmt.Sprintf("jb-%d", i)
		if chord.Between(P.ID, chord.Hash([]byte(k)), L.ID, true) || i < 40 {
			if err := members[0].Node.Put(ctx, []byte(k), []byte("v")); err == nil && chord.Between(P.ID, chord.Hash([]byte(k)), L.ID, true) {
				inL++
			}
		}
	}
	if inL == 0 {
		res.Setup = "no key found in L's range"
		return res
	}
	if !lab.FreezePeriodic(20 * time.Second) {
		res.Setup = "periodic tasks could not be parked"
		return res
	}
	L.Leave()
	if L.State() != chord.Left {
		res.Setup = "L did not leave: " + L.State().String()
		return res
	}
	if id, ok := S.Node.VerifPredecessorID(); !ok || id != L.ID {
		res.Setup = fmt.Sprintf("after L left, S names %d/%v instead of L", id, ok)
		return res
	}
	res.Windows["S holds L's keys and still names the departed L"] = true
	J, err := lab.Spawn(between(L.ID, S.ID, rng, lab), backend)
	if err != nil {
		res.Setup = err.Error()
		return res
	}
	go func() { time.Sleep(time.Duration(5+rng.Intn(15)) * time.Millisecond); lab.Unfreeze() }()
	var jerr error
	for a := 0; a < 60; a++ {
		if jerr = J.Join(S); jerr == nil || !chord.ErrorIsRetryable(jerr) {
			break
		}
		time.Sleep(5 * time.Millisecond)
	}
	lab.Unfreeze()
	res.logf("J=%d join through S: %v", J.ID, jerr)
	if jerr != nil && !chord.ErrorIsRetryable(jerr) {
		res.Findings = append(res.Findings, Finding{Key: "non-retryable-join-error:join-behind-departed", What: fmt.Sprintf("join of %d through %d right after %d left returned the non-retryable error %q", J.ID, S.ID, L.ID, jerr), Witness: map[string]any{"trace": res.Trace}})
	}
	if jerr == nil {
		res.Windows["J joined behind the departed node"] = true
	}
	live := int64(len(lab.Live()))
	if cv := lab.WaitConverged(6*live+20, 2*time.Minute, false); !cv.Converged {
		res.Setup = "ring did not converge afterwards (C02's subject): " + cv.Diff
		return res
	}
	var liveIDs []uint64
	for _, m := range lab.Live() {
		liveIDs = append(liveIDs, m.ID)
	}
	sort.Slice(liveIDs, func(i, j int) bool { return liveIDs[i] < liveIDs[j] })
	bad := 0
	for _, m := range lab.Live() {
		keys, err := m.Node.VerifKV().RangeKeys(ctx, 0, 0)
		if err != nil {
			continue
		}
		for _, k := range keys {
			if o := OwnerOf(liveIDs, chord.Hash(k)); o != m.ID {
				bad++
				if bad <= 3 {
					res.Findings = append(res.Findings, Finding{Key: "key-outside-ownership-range:join-behind-departed", What: fmt.Sprintf("after L=%d left and J=%d joined right behind it through S=%d: node %d stores key %s (hash %d) whose owner in ring %v is %d", L.ID, J.ID, S.ID, m.ID, k, chord.Hash(k), liveIDs, o),
						Witness: map[string]any{"trace": res.Trace, "ring": liveIDs, "P": P.ID, "L": L.ID, "S": S.ID, "J": J.ID}})
				}
			}
		}
	}
	res.Windows["stores read after convergence"] = true
	return res
}

// RunRefusedLeaveDuringJoin: consecutive members L < S (in id order, so that the leaver locks itself
// first and then asks its successor). J joins between L and S and is held after S has granted it
// the membership lock (S is Transferring) and before it releases it. Meanwhile L tries to leave: S
// must refuse (it is taking part in J's join) — and must still be locked for J afterwards: only
// the operation that obtained the lock releases it.
func RunRefusedLeaveDuringJoin(seed int64, netv bool) *DirectedResult {
	res := &DirectedResult{Name: "refused-leave-during-join", Windows: map[string]bool{}}
	mode := Direct
	if netv {
		mode = NetV
	}
	lab := New(Options{Mode: mode, Seed: seed, RecordEvents: true})
	defer lab.Close()
	rng := rand.New(rand.NewSource(seed))
	n := 3 + rng.Intn(4)
	ids, _, setup := buildRing(lab, rng, n, Memory)
	if setup != "" {
		res.Setup = setup
		return res
	}
	defer lab.StopAll()
	at := rng.Intn(n - 1) // L = ids[at] < S = ids[at+1]: no wrap, leaver id below successor id
	L, S := lab.Member(ids[at]), lab.Member(ids[at+1])
	J, err := lab.Spawn(between(L.ID, S.ID, rng, lab), Memory)
	if err != nil {
		res.Setup = err.Error()
		return res
	}
	res.logf("ring %v: L=%d S=%d J=%d", ids, L.ID, S.ID, J.ID)
	hold := make(chan struct{})
	var held atomic.Bool
	lab.On("join.requested", func(_ string, node uint64) {
		if node == J.ID && held.CompareAndSwap(false, true) {
			select {
			case <-hold:
			case <-time.After(30 * time.Second):
			}
		}
	})
	jdone := make(chan error, 1)
	go func() { jdone <- J.Join(S) }()
	if !waitUntil(held.Load, 10*time.Second) {
		close(hold)
		res.Setup = "J's join did not reach the point after the lock grant"
		<-jdone
		return res
	}
	if S.State() != chord.Transferring {
		close(hold)
		res.Setup = "S is not Transferring while J holds its lock: " + S.State().String()
		<-jdone
		return res
	}
	res.Windows["S is locked by J's join"] = true
	ldone := make(chan struct{})
	go func() { L.Leave(); close(ldone) }()
	// while J is held, S must stay locked, whatever L's attempts do
	released := false
	deadline := time.Now().Add(400 * time.Millisecond)
	for time.Now().Before(deadline) {
		if st := S.State(); st != chord.Transferring {
			released = true
			res.logf("S is %s while J's join still holds its lock", st)
			break
		}
		select {
		case <-ldone:
			deadline = time.Now()
		default:
		}
		time.Sleep(200 * time.Microsecond)
	}
	res.Windows["L attempted to leave while S was locked"] = true
	if released {
		res.Findings = append(res.Findings, Finding{Key: "membership-lock-released-by-non-holder", What: fmt.Sprintf("S=%d was granted to the join of J=%d and is %s again although J has not released it: the refused leave of L=%d unlocked it (a second join or leave can now run concurrently)", S.ID, J.ID, S.State(), L.ID),
			Witness: map[string]any{"trace": res.Trace, "ring": ids, "L": L.ID, "S": S.ID, "J": J.ID, "S_history": fmt.Sprint(S.Node.VerifStateHistory())}})
	}
	close(hold)
	select {
	case jerr := <-jdone:
		res.logf("J's join returned %v", jerr)
	case <-time.After(60 * time.Second):
		res.Setup = "J's join did not return"
		return res
	}
	select {
	case <-ldone:
	case <-time.After(60 * time.Second):
		res.Setup = "L's leave did not return"
		return res
	}
	live := int64(len(lab.Live()))
	if cv := lab.WaitConverged(6*live+20, 2*time.Minute, false); !cv.Converged && !cv.Watchdog {
		res.Findings = append(res.Findings, Finding{Key: "not-serving-after-contention:directed", What: "after the held join and the refused leave the ring did not return to serving: " + cv.Diff, Witness: map[string]any{"trace": res.Trace}})
	}
	return res
}

// RunStabilizeHeldOverJoin: consecutive members X, S. A periodic stabilize round of X is held after
// it has computed its list and before it stores it; J joins between X and S (the join's advisory
// runs a second round on X, which stores [J, S, ...]); the held round is released. X's successor
// must still be J: a slow round must not put its older view back.
func RunStabilizeHeldOverJoin(seed int64, netv bool) *DirectedResult {
	res := &DirectedResult{Name: "stabilize-held-over-join", Windows: map[string]bool{}}
	mode := Direct
	if netv {
		mode = NetV
	}
	lab := New(Options{Mode: mode, Seed: seed, MonitorPred: true, RecordEvents: true})
	defer lab.Close()
	rng := rand.New(rand.NewSource(seed))
	n := 2 + rng.Intn(5)
	ids, _, setup := buildRing(lab, rng, n, Memory)
	if setup != "" {
		res.Setup = setup
		return res
	}
	defer lab.StopAll()
	at := rng.Intn(n)
	X, S := lab.Member(ids[at]), lab.Member(ids[(at+1)%n])
	J, err := lab.Spawn(between(X.ID, S.ID, rng, lab), Memory)
	if err != nil {
		res.Setup = err.Error()
		return res
	}
	res.logf("ring %v: X=%d S=%d J=%d", ids, X.ID, S.ID, J.ID)
	hold := make(chan struct{})
	var first, held atomic.Bool
	lab.On("stab.read", func(_ string, node uint64) {
		if node == X.ID && onStack("chord.(*LocalNode).periodic") && first.CompareAndSwap(false, true) {
			held.Store(true)
			select {
			case <-hold:
			case <-time.After(30 * time.Second):
			}
		}
	})
	if !waitUntil(held.Load, 10*time.Second) {
		close(hold)
		res.Setup = "no periodic stabilize round of X reached the point between computing and storing"
		return res
	}
	res.Windows["a periodic round of X is held between computing and storing its list"] = true
	var jerr error
	for a := 0; a < 40; a++ {
		if jerr = J.Join(S); jerr == nil || !chord.ErrorIsRetryable(jerr) {
			break
		}
		time.Sleep(5 * time.Millisecond)
	}
	if jerr != nil {
		close(hold)
		res.Setup = "J could not join: " + jerr.Error()
		return res
	}
	if id, ok := X.Node.VerifSuccessorID(); !ok || id != J.ID {
		close(hold)
		res.Setup = fmt.Sprintf("after J joined, X's successor is %d/%v, not J", id, ok)
		return res
	}
	res.Windows["the join's advisory round stored J as X's successor"] = true
	done := lab.Rounds("stab.done", X.ID)
	close(hold)
	waitUntil(func() bool { return lab.Rounds("stab.done", X.ID) > done }, 5*time.Second)
	id, ok := X.Node.VerifSuccessorID()
	res.logf("held round released; X's successor = %d/%v", id, ok)
	if ok && id != J.ID && J.State() == chord.Active {
		res.Findings = append(res.Findings, Finding{Key: "slow-stabilize-round-overwrote-newer-successor-list", What: fmt.Sprintf("a stabilize round of X=%d that was held between computing and storing its list put the successor %d back although J=%d had joined in between and was already X's successor", X.ID, id, J.ID),
			Witness: map[string]any{"trace": res.Trace, "ring": ids, "X": X.ID, "S": S.ID, "J": J.ID}})
	}
	res.Regress = lab.PredRegressions()
	for i, r := range res.Regress {
		if i >= 2 {
			break
		}
		key := "predecessor-moved-away-from-live-node"
		if r.Succ {
			key = "successor-moved-away-from-live-node"
		}
		res.Findings = append(res.Findings, Finding{Key: key, What: r.String(), Witness: map[string]any{"trace": res.Trace, "regression": r}})
	}
	return res
}
