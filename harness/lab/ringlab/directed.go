package ringlab

import (
	"context"
	"fmt"
	"math/rand"
	"sort"
	"sync/atomic"
	"time"

	"go.miragespace.co/specter/spec/chord"
)

// Directed schedules: hook-ordered executions in which one step of an operation is held at a
// hook point while another operation runs to completion. Random churn reaches these orders once
// in hundreds of executions; here they are constructed.

// DirectedResult is what one directed schedule observed.
type DirectedResult struct {
	Name       string
	Setup      string // non-empty: the schedule could not be constructed (inconclusive)
	Windows    map[string]bool
	Regress    []PredRegression
	Findings   []Finding
	Trace      []string
	PredAtEnd  string
	NotifyHeld bool
}

func (d *DirectedResult) logf(f string, a ...any) {
	d.Trace = append(d.Trace, fmt.Sprintf("[%d] ", mono()/1000)+fmt.Sprintf(f, a...))
}

func waitUntil(f func() bool, d time.Duration) bool {
	dl := time.Now().Add(d)
	for !f() {
		if time.Now().After(dl) {
			return false
		}
		time.Sleep(200 * time.Microsecond)
	}
	return true
}

// RunNotifyHeldOverJoin: consecutive members P < L < S. L leaves while the periodic tasks are
// parked, so S still names L. The first Notify(P) that reaches S afterwards finds L dead and is
// held right before it applies its candidate; a second Notify(P) repairs the pointer (S.pred = P);
// then a node J joins between P and S (S.pred = J, keys (P,J] handed to J). Only then is the first
// Notify released. It must leave S.pred alone (its snapshot is two generations old). Afterwards a
// value written through S for a key owned by J must be visible through P and J.
func RunNotifyHeldOverJoin(seed int64, netv bool, backend Backend) *DirectedResult {
	res := &DirectedResult{Name: "notify-held-over-join", Windows: map[string]bool{}}
	mode := Direct
	if netv {
		mode = NetV
	}
	lab := New(Options{Mode: mode, Seed: seed, MonitorPred: true, RecordEvents: true})
	defer lab.Close()
	rng := rand.New(rand.NewSource(seed))
	n := 3 + rng.Intn(4)
	idset := map[uint64]bool{}
	var ids []uint64
	for len(ids) < n {
		id := rng.Uint64() % M
		// leave room for J between any two neighbours
		if !idset[id] && !idset[id+1] && !idset[id-1] {
			idset[id] = true
			ids = append(ids, id)
		}
	}
	order := append([]uint64{}, ids...)
	sort.Slice(ids, func(i, j int) bool { return ids[i] < ids[j] })
	var members []*Member
	for i, id := range order {
		m, err := lab.Spawn(id, backend)
		if err != nil {
			res.Setup = err.Error()
			return res
		}
		if i == 0 {
			if err := m.Create(); err != nil {
				res.Setup = err.Error()
				return res
			}
		} else {
			var jerr error
			for a := 0; a < 10; a++ {
				if jerr = m.Join(members[rng.Intn(len(members))]); jerr == nil {
					break
				}
				time.Sleep(10 * time.Millisecond)
			}
			if jerr != nil {
				lab.StopAll()
				res.Setup = "setup join: " + jerr.Error()
				return res
			}
		}
		members = append(members, m)
	}
	defer lab.StopAll()
	if cv := lab.WaitConverged(int64(6*n+20), time.Minute, false); !cv.Converged {
		res.Setup = "setup ring did not stabilise: " + cv.Diff
		return res
	}
	// some data everywhere
	for i := 0; i < 24; i++ {
		_ = members[0].Node.Put(context.Background(), []byte(fmt.Sprintf("dir-%02d", i)), []byte("v0"))
	}
	at := rng.Intn(n)
	P, L, S := lab.Member(ids[at]), lab.Member(ids[(at+1)%n]), lab.Member(ids[(at+2)%n])
	res.logf("ring %v: P=%d L=%d S=%d", ids, P.ID, L.ID, S.ID)
	if !lab.FreezePeriodic(20 * time.Second) {
		res.Setup = "periodic tasks could not be parked"
		return res
	}
	L.Leave()
	if L.State() != chord.Left {
		res.Setup = "L did not leave: " + L.State().String()
		return res
	}
	if id, ok := S.Node.VerifPredecessorID(); !ok || id != L.ID {
		// the leave itself already repaired the pointer: nothing to hold a Notify over
		res.Setup = fmt.Sprintf("after L left, S names %d/%v instead of L", id, ok)
		return res
	}
	res.Windows["S still names the departed L"] = true
	hold := make(chan struct{})
	var first, held atomic.Bool
	lab.On("notify.apply", func(_ string, node uint64) {
		if node == S.ID && first.CompareAndSwap(false, true) {
			held.Store(true)
			select {
			case <-hold:
			case <-time.After(30 * time.Second):
			}
		}
	})
	lab.Unfreeze()
	if !waitUntil(held.Load, 10*time.Second) {
		close(hold)
		res.Setup = "no Notify reached S after L left"
		return res
	}
	res.NotifyHeld = true
	res.logf("first Notify at S is held before it applies its candidate")
	// a later Notify repairs the pointer. In this wiring a Notify runs on the notifier's own stabilize
	// goroutine, which is the one being held; the second round is triggered the way a neighbour does
	// it: the "update your pointers" advisory (FinishLeave(stabilize, no release)), which runs a
	// stabilize round on P in the caller's goroutine
	go func() { _ = P.Node.FinishLeave(true, false) }()
	if !waitUntil(func() bool { id, ok := S.Node.VerifPredecessorID(); return ok && id == P.ID }, 10*time.Second) {
		close(hold)
		res.Setup = "S.pred was not repaired to P by a second Notify"
		return res
	}
	res.Windows["a second Notify repaired S.pred to P"] = true
	res.logf("S.pred = P")
	// J joins between P and S
	var jid uint64
	span := (S.ID + M - P.ID) % M
	for {
		jid = (P.ID + 1 + rng.Uint64()%(span-1)) % M
		if lab.Member(jid) == nil {
			break
		}
	}
	J, err := lab.Spawn(jid, backend)
	if err != nil {
		close(hold)
		res.Setup = err.Error()
		return res
	}
	var jerr error
	for a := 0; a < 40; a++ {
		if jerr = J.Join(S); jerr == nil {
			break
		}
		if !chord.ErrorIsRetryable(jerr) {
			break
		}
		time.Sleep(5 * time.Millisecond)
	}
	if jerr != nil {
		close(hold)
		res.Setup = "J could not join between P and S: " + jerr.Error()
		return res
	}
	if id, ok := S.Node.VerifPredecessorID(); ok && id == J.ID {
		res.Windows["J joined between P and S while the first Notify was held"] = true
	}
	res.logf("J=%d joined, S.pred = J", J.ID)
	applied := lab.Hits("notify.applied")
	close(hold)
	waitUntil(func() bool { return lab.Hits("notify.applied") > applied }, 5*time.Second)
	id, ok := S.Node.VerifPredecessorID()
	res.PredAtEnd = fmt.Sprintf("%d/%v", id, ok)
	res.logf("held Notify released; S.pred = %s", res.PredAtEnd)
	if ok && id != J.ID && J.State() == chord.Active {
		res.Findings = append(res.Findings, Finding{Key: "stale-notify-overwrote-newer-predecessor", What: fmt.Sprintf("a Notify(%d) that had found S's old predecessor %d dead and was held up before applying replaced the predecessor %d that had joined in the meantime: S=%d now names %d", P.ID, L.ID, J.ID, S.ID, id),
			Witness: map[string]any{"trace": res.Trace, "ring": ids, "P": P.ID, "L": L.ID, "S": S.ID, "J": J.ID}})
	}
	// a value written through S for a key J owns must be visible through P and J
	var key string
	for i := 0; i < 100000; i++ {
		k := fmt.Sprintf("dk-%d", i)
		if chord.Between(P.ID, chord.Hash([]byte(k)), J.ID, true) {
			key = k
			break
		}
	}
	if key != "" {
		val := fmt.Sprintf("written-through-S-%d", seed)
		var perr error
		for a := 0; a < 200; a++ {
			if perr = S.Node.Put(context.Background(), []byte(key), []byte(val)); perr == nil || !chord.ErrorIsRetryable(perr) {
				break
			}
			time.Sleep(time.Millisecond)
		}
		if perr == nil {
			for _, via := range []*Member{P, J} {
				var got []byte
				var gerr error
				for a := 0; a < 200; a++ {
					if got, gerr = via.Node.Get(context.Background(), []byte(key)); gerr == nil || !chord.ErrorIsRetryable(gerr) {
						break
					}
					time.Sleep(time.Millisecond)
				}
				if gerr == nil && string(got) != val {
					res.Findings = append(res.Findings, Finding{Key: "acknowledged-write-invisible-after-held-notify", What: fmt.Sprintf("Put(%s) acknowledged through S=%d (key owned by J=%d) is not visible through %d: got %q", key, S.ID, J.ID, via.ID, got),
						Witness: map[string]any{"trace": res.Trace, "ring": ids, "P": P.ID, "L": L.ID, "S": S.ID, "J": J.ID, "key": key}})
				}
			}
			res.Windows["a write through S for a key of J was acknowledged and read back"] = true
		}
	}
	res.Regress = lab.PredRegressions()
	for i, r := range res.Regress {
		if i >= 2 {
			break
		}
		res.Findings = append(res.Findings, Finding{Key: "predecessor-moved-away-from-live-node", What: r.String(), Witness: map[string]any{"trace": res.Trace, "regression": r}})
	}
	return res
}
