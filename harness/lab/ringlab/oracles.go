package ringlab

import (
	"fmt"
	"sort"
	"strings"
	"time"

	"github.com/anishathalye/porcupine"

	"go.miragespace.co/specter/spec/chord"
)

type Finding struct {
	Key     string
	What    string
	Witness any
}

func byClientSeq(ops []OpRec) map[int][]OpRec {
	per := map[int][]OpRec{}
	for _, o := range ops {
		per[o.Client] = append(per[o.Client], o)
	}
	for _, l := range per {
		sort.SliceStable(l, func(i, j int) bool {
			if l[i].Seq != l[j].Seq {
				return l[i].Seq < l[j].Seq
			}
			return l[i].Attempt < l[j].Attempt
		})
	}
	return per
}

type keyModel struct {
	value     string
	children  map[string]bool
	uncertain bool // some write on this key ended indeterminately
	poisoned  bool // a write on this key timed out (may take effect at any later time)
	lastAck   string
}

func setString(m map[string]bool) []string {
	out := []string{}
	for k, v := range m {
		if v {
			out = append(out, k)
		}
	}
	sort.Strings(out)
	return out
}

// CheckSingleWriter is the C03 oracle: every key is written and read (during the
// workload) by exactly one client, sequentially; every logical operation is retried
// until it is acknowledged. Successful reads — during churn and from every live
// node after quiescence — must return the last acknowledged state.
func CheckSingleWriter(res *ChurnResult) (findings []Finding, uncertainKeys int, checkedReads int) {
	models := map[string]*keyModel{}
	get := func(k string) *keyModel {
		m := models[k]
		if m == nil {
			m = &keyModel{children: map[string]bool{}}
			models[k] = m
		}
		return m
	}
	per := byClientSeq(res.Ops)
	clients := []int{}
	for c := range per {
		if c != 1000 {
			clients = append(clients, c)
		}
	}
	sort.Ints(clients)
	add := func(key, what string, o OpRec, m *keyModel) {
		if y, t, ok := ackedWriteWentToNonOwner(res, o, m); ok {
			key += ":written-to-non-owner"
			what += fmt.Sprintf(" [the acknowledged write was executed at t=%dus by a node that was not the owner: node %d (joined, not leaving) owned the key then]", t, y)
		} else if x, y, t, ok := readServedByNonOwner(res, o); ok {
			key += ":read-from-non-owner"
			what += fmt.Sprintf(" [this read was answered at t=%dus from the store of node %d, which was not the owner: node %d (joined, not leaving) owned the key then]", t, x, y)
		}
		findings = append(findings, Finding{Key: key, What: what, Witness: map[string]any{"op": o, "model_value": m.value, "model_children": setString(m.children), "last_ack": m.lastAck, "member_log": res.MemberLog, "hook_log": res.HookLog, "store_events": storeEvents(res, o.Key+"/")}})
	}
	for _, c := range clients {
		ops := per[c]
		for i := 0; i < len(ops); {
			j := i
			for j < len(ops) && ops[j].Seq == ops[i].Seq {
				j++
			}
			attempts := ops[i:j]
			last := attempts[len(attempts)-1]
			m := get(last.Key)
			for _, a := range attempts {
				if a.Timeout && a.Kind.Write() {
					// a timed-out write may still take effect at any later time: nothing about this
					// key can be decided from here on
					m.poisoned = true
				}
			}
			if m.poisoned {
				m.uncertain = true
			}
			earlierErr := len(attempts) > 1
			ok := last.Err == "" || last.Conflict
			if !ok {
				if last.Kind.Write() {
					m.uncertain = true
				}
				i = j
				continue
			}
			desc := fmt.Sprintf("%s(%s,%s) by client %d seq %d via node %d", last.Kind, last.Key, last.Arg, last.Client, last.Seq, last.Entry)
			switch last.Kind {
			case OpPut:
				if last.Conflict {
					m.uncertain = true // failed CAS with a single writer: not specified, do not guess
				} else {
					m.value = last.Arg
					m.lastAck = desc
				}
			case OpDelete:
				if last.Conflict {
					m.uncertain = true
				} else {
					m.value = ""
					m.lastAck = desc
				}
			case OpAppend:
				if last.Conflict {
					if !m.children[last.Arg] && !earlierErr && !m.uncertain {
						add("append-conflict-on-absent-child", "PrefixAppend was refused as duplicate although the last acknowledged state does not contain the child: "+desc, last, m)
					}
					m.children[last.Arg] = true
				} else {
					if m.children[last.Arg] && !m.uncertain {
						add("acknowledged-child-lost", "PrefixAppend succeeded although the child was already acknowledged as present (it was lost in between): "+desc, last, m)
					}
					m.children[last.Arg] = true
					m.lastAck = desc
				}
			case OpRemove:
				m.children[last.Arg] = false
				m.lastAck = desc
			case OpGet:
				if !m.uncertain {
					checkedReads++
					if last.Value != m.value {
						add("stale-or-lost-value", fmt.Sprintf("Get(%s) via node %d returned %q, last acknowledged value is %q", last.Key, last.Entry, last.Value, m.value), last, m)
					}
				}
			case OpContains:
				if !m.uncertain {
					checkedReads++
					if last.Bool != m.children[last.Arg] {
						add("wrong-contains", fmt.Sprintf("PrefixContains(%s,%s) via node %d returned %v, acknowledged state says %v", last.Key, last.Arg, last.Entry, last.Bool, m.children[last.Arg]), last, m)
					}
				}
			case OpList:
				if !m.uncertain {
					checkedReads++
					if strings.Join(last.List, ",") != strings.Join(setString(m.children), ",") {
						add("wrong-children", fmt.Sprintf("PrefixList(%s) via node %d returned %v, acknowledged children are %v", last.Key, last.Entry, last.List, setString(m.children)), last, m)
					}
				}
			}
			i = j
		}
	}
	// final reads from every live node
	// of the attempts of one final read (entry node, key, kind) only the last one counts
	lastFinal := map[string]int{}
	for i, o := range per[1000] {
		lastFinal[fmt.Sprintf("%d/%s/%d", o.Entry, o.Key, o.Kind)] = i
	}
	for i, o := range per[1000] {
		if lastFinal[fmt.Sprintf("%d/%s/%d", o.Entry, o.Key, o.Kind)] != i {
			continue
		}
		if o.Err != "" && o.Timeout {
			continue // transport failure / timeout on the real RPC path: says nothing about the data
		}
		if o.Err != "" {
			findings = append(findings, Finding{Key: "final-read-error", What: fmt.Sprintf("after quiescence %s(%s) via node %d still fails: %s", o.Kind, o.Key, o.Entry, o.Err), Witness: map[string]any{"op": o}})
			continue
		}
		m := get(o.Key)
		if m.uncertain {
			continue
		}
		checkedReads++
		switch o.Kind {
		case OpGet:
			if o.Value != m.value {
				k := "lost-value-after-churn"
				if m.value == "" {
					k = "deleted-value-reappeared"
				}
				add(k, fmt.Sprintf("after quiescence Get(%s) via node %d returned %q, last acknowledged value is %q (%s)", o.Key, o.Entry, o.Value, m.value, m.lastAck), o, m)
			}
		case OpList:
			want := setString(m.children)
			if strings.Join(o.List, ",") != strings.Join(want, ",") {
				k := "lost-children-after-churn"
				for _, x := range o.List {
					if !m.children[x] {
						k = "removed-child-reappeared"
					}
				}
				add(k, fmt.Sprintf("after quiescence PrefixList(%s) via node %d returned %v, acknowledged children are %v", o.Key, o.Entry, o.List, want), o, m)
			}
		}
	}
	// every key holding data is stored on exactly one live node
	if res.Converge.Converged && res.StoreErr == "" {
		holders := map[string][]uint64{}
		for id, keys := range res.Stores {
			for _, k := range keys {
				holders[k] = append(holders[k], id)
			}
		}
		for k, m := range models {
			if m.uncertain {
				uncertainKeys++
				continue
			}
			has := m.value != "" || len(setString(m.children)) > 0
			if has && len(holders[k]) == 0 {
				findings = append(findings, Finding{Key: "key-on-no-node", What: fmt.Sprintf("key %s holds acknowledged data but no live node's store lists it", k), Witness: map[string]any{"key": k, "stores": res.Stores}})
			}
			if has && len(holders[k]) > 1 {
				findings = append(findings, Finding{Key: "key-on-two-nodes", What: fmt.Sprintf("key %s is stored on nodes %v", k, holders[k]), Witness: map[string]any{"key": k, "holders": holders[k]}})
			}
		}
	}
	return
}

func tail(s []string, n int) []string {
	if len(s) > n {
		return s[len(s)-n:]
	}
	return s
}

// CheckOwnership is the C05 oracle: after quiescence every key a node's store
// reports hashes into (predecessor, self] and no key is on two nodes.
func CheckOwnership(res *ChurnResult) (findings []Finding, keysSeen int) {
	if !res.Converge.Converged || res.StoreErr != "" {
		return
	}
	ids := append([]uint64{}, res.Live...)
	sort.Slice(ids, func(i, j int) bool { return ids[i] < ids[j] })
	holders := map[string][]uint64{}
	// union of the two views a store offers on its contents: the range scan and the listing
	merged := map[uint64][]string{}
	for id, keys := range res.Stores {
		merged[id] = append(merged[id], keys...)
	}
	for id, keys := range res.Listed {
		have := map[string]bool{}
		for _, k := range merged[id] {
			have[k] = true
		}
		for _, k := range keys {
			if !have[k] {
				merged[id] = append(merged[id], k)
			}
		}
	}
	for id, keys := range merged {
		for _, k := range keys {
			keysSeen++
			holders[k] = append(holders[k], id)
			h := chord.Hash([]byte(k))
			owner := OwnerOf(ids, h)
			if owner != id {
				key := "key-outside-ownership-range"
				how := ""
				if y, t, ok := writtenToNonOwner(res, id, k, h); ok {
					// the data got there by a client write that this node accepted although another node,
					// fully joined and not leaving at that moment, was the owner (lookup through pointers
					// that were being repaired + ownership verified against an equally stale predecessor)
					key += ":written-to-non-owner"
					how = fmt.Sprintf("; the value was written there at t=%dus by a client request although node %d (joined, not leaving) owned the key at that time", t, y)
				}
				findings = append(findings, Finding{Key: key, What: fmt.Sprintf("node %d stores key %s (hash %d) whose owner in ring %v is %d%s", id, k, h, ids, owner, how),
					Witness: map[string]any{"node": id, "key": k, "hash": h, "ring": ids, "owner": owner, "member_log": res.MemberLog, "hook_log": res.HookLog, "store_events": storeEvents(res, k+"/")}})
			}
		}
	}
	for k, hs := range holders {
		if len(hs) > 1 {
			key := "key-on-two-nodes"
			h := chord.Hash([]byte(k))
			for _, id := range hs {
				if OwnerOf(ids, h) != id {
					if _, _, ok := writtenToNonOwner(res, id, k, h); ok {
						key += ":written-to-non-owner"
						break
					}
				}
			}
			findings = append(findings, Finding{Key: key, What: fmt.Sprintf("key %s is stored on nodes %v", k, hs), Witness: map[string]any{"key": k, "holders": hs, "ring": ids, "store_events": storeEvents(res, k+"/")}})
		}
	}
	return
}

// ---------------------------------------------------------------------------
// linearizability (C04)

type linIn struct {
	Kind OpKind
	Arg  string
}

type linOut struct {
	Unknown  bool // the operation ended with a non-retryable unexpected error: it may or may not have taken effect
	Conflict bool
	Value    string
	Bool     bool
	List     string
}

func registerModel() porcupine.Model {
	return porcupine.Model{
		Init: func() any { return "" },
		Step: func(st, in, out any) (bool, any) {
			s, i, o := st.(string), in.(linIn), out.(linOut)
			switch i.Kind {
			case OpPut:
				if o.Conflict {
					return true, s
				}
				return true, i.Arg
			case OpDelete:
				if o.Conflict {
					return true, s
				}
				return true, ""
			case OpGet:
				return o.Value == s, s
			}
			return false, s
		},
		DescribeOperation: func(in, out any) string { return fmt.Sprintf("%v -> %+v", in, out) },
	}
}

func setModel() porcupine.Model {
	has := func(s, c string) bool {
		for _, x := range strings.Split(s, ",") {
			if x == c && c != "" {
				return true
			}
		}
		return false
	}
	with := func(s, c string) string {
		parts := []string{}
		if s != "" {
			parts = strings.Split(s, ",")
		}
		parts = append(parts, c)
		sort.Strings(parts)
		return strings.Join(parts, ",")
	}
	without := func(s, c string) string {
		parts := []string{}
		for _, x := range strings.Split(s, ",") {
			if x != c && x != "" {
				parts = append(parts, x)
			}
		}
		return strings.Join(parts, ",")
	}
	return porcupine.Model{
		Init: func() any { return "" },
		Step: func(st, in, out any) (bool, any) {
			s, i, o := st.(string), in.(linIn), out.(linOut)
			switch i.Kind {
			case OpAppend:
				if o.Unknown {
					if has(s, i.Arg) {
						return true, s
					}
					return true, with(s, i.Arg)
				}
				if o.Conflict {
					return has(s, i.Arg), s
				}
				if has(s, i.Arg) {
					return false, s
				}
				return true, with(s, i.Arg)
			case OpRemove:
				return true, without(s, i.Arg)
			case OpContains:
				return o.Bool == has(s, i.Arg), s
			case OpList:
				return o.List == s, s
			}
			return false, s
		},
		DescribeOperation: func(in, out any) string { return fmt.Sprintf("%v -> %+v", in, out) },
	}
}

type LinStats struct {
	Partitions     int
	OpsChecked     int
	RetryableOps   int
	Unknown        int // partitions porcupine could not decide within the timeout
	Unexpected     []OpRec
	TimedOutWrites int
}

// CheckLinearizable is the C04 oracle. Every attempt is an operation of the history.
// Attempts that ended with a retryable error are removed (the property says they
// have no effect: if one did take effect, a later read observes a value no remaining
// write produced and the history is rejected). Attempts that ended with any other
// unexpected error are reported separately by the caller and dropped here if they
// are reads; writes with unexpected errors are kept as "may or may not have
// happened" by splitting the check in two variants is avoided: they are dropped too
// but flagged, so the caller can mark the case.
func CheckLinearizable(res *ChurnResult, timeout time.Duration) (findings []Finding, st LinStats) {
	type part struct {
		ops []porcupine.Operation
		raw []OpRec
	}
	parts := map[string]*part{}
	var maxT int64
	openClients := 0
	for _, o := range res.Ops {
		if o.Return > maxT {
			maxT = o.Return
		}
	}
	for _, o := range res.Ops {
		timedOutWrite := false
		if o.Err != "" && !o.Conflict {
			switch {
			case o.Timeout && o.Kind.Write():
				// the call may still take effect at any later time (or never): keep it open
				// until the end of the history with an unknown outcome
				timedOutWrite = true
				st.TimedOutWrites++
			case o.Timeout:
				continue
			case o.Retryable:
				st.RetryableOps++
				continue
			default:
				st.Unexpected = append(st.Unexpected, o)
				continue
			}
		}
		kind := "simple"
		if o.Kind.Prefix() {
			kind = "prefix"
		}
		pk := o.Key + "/" + kind
		p := parts[pk]
		if p == nil {
			p = &part{}
			parts[pk] = p
		}
		out := linOut{Conflict: o.Conflict, Value: o.Value, Bool: o.Bool, List: strings.Join(o.List, ",")}
		ret := o.Return
		cid := o.Client
		if timedOutWrite {
			out = linOut{Unknown: true}
			ret = maxT + 1_000_000_000 + int64(len(p.ops))
			openClients++
			cid = 100000 + openClients // an open operation occupies its own logical client
		}
		p.ops = append(p.ops, porcupine.Operation{ClientId: cid, Input: linIn{Kind: o.Kind, Arg: o.Arg}, Call: o.Call, Output: out, Return: ret})
		p.raw = append(p.raw, o)
	}
	keys := []string{}
	for k := range parts {
		keys = append(keys, k)
	}
	sort.Strings(keys)
	for _, pk := range keys {
		p := parts[pk]
		model := registerModel()
		if strings.HasSuffix(pk, "/prefix") {
			model = setModel()
		}
		// porcupine wants client ids in a small dense range
		remap := map[int]int{}
		for i := range p.ops {
			if _, ok := remap[p.ops[i].ClientId]; !ok {
				remap[p.ops[i].ClientId] = len(remap)
			}
			p.ops[i].ClientId = remap[p.ops[i].ClientId]
		}
		st.Partitions++
		st.OpsChecked += len(p.ops)
		r, info := porcupine.CheckOperationsVerbose(model, p.ops, timeout)
		switch r {
		case porcupine.Ok:
		case porcupine.Unknown:
			st.Unknown++
		case porcupine.Illegal:
			_ = info
			key := "not-linearizable:" + pk[strings.Index(pk, "/")+1:]
			if strings.HasSuffix(pk, "/prefix") {
				// a PrefixList that runs concurrently with appends/removes of the same key is not an
				// atomic snapshot in the memory store (it iterates a concurrent set): if the history
				// is linearizable once exactly those listings are set aside (listings without a
				// concurrent write, e.g. the reads after quiescence, stay in), it is that class
				relaxed := make([]porcupine.Operation, 0, len(p.ops))
				dropped := 0
				for i, op := range p.ops {
					if op.Input.(linIn).Kind == OpList {
						concurrent := false
						for j, w := range p.ops {
							if i == j {
								continue
							}
							if k := w.Input.(linIn).Kind; (k == OpAppend || k == OpRemove) && w.Call <= op.Return && w.Return >= op.Call {
								concurrent = true
								break
							}
						}
						if concurrent {
							dropped++
							continue
						}
					}
					relaxed = append(relaxed, op)
				}
				if dropped > 0 {
					if r2, _ := porcupine.CheckOperationsVerbose(model, relaxed, timeout); r2 == porcupine.Ok {
						key += ":list-snapshot-not-atomic"
					}
				}
			}
			if o, t, ok := anyClientWriteOnNonOwner(res, pk[:strings.Index(pk, "/")]); ok && !strings.Contains(key, ":list-") {
				key += ":written-to-non-owner"
				_ = o
				_ = t
			} else if _, _, ok := anyClientReadOnNonOwner(res, pk[:strings.Index(pk, "/")], strings.HasSuffix(pk, "/prefix")); ok && !strings.Contains(key, ":list-") {
				// the same stale-pointer window seen from the other side: a read was answered from the
				// (empty or outdated) copy of a node that was not the owner
				key += ":read-from-non-owner"
			}
			sort.Slice(p.raw, func(i, j int) bool { return p.raw[i].Call < p.raw[j].Call })
			findings = append(findings, Finding{Key: key,
				What:    fmt.Sprintf("history of %s (%d operations after removing retryable failures) is not linearizable", pk, len(p.ops)),
				Witness: map[string]any{"partition": pk, "history": p.raw, "removed_failed_attempts": failedOf(res.Ops, pk), "member_log": res.MemberLog, "hook_log": res.HookLog, "store_events": storeEvents(res, pk)}})
		}
	}
	return
}

func failedOf(ops []OpRec, pk string) []OpRec {
	out := []OpRec{}
	for _, o := range ops {
		if o.Err == "" || o.Conflict {
			continue
		}
		kind := "simple"
		if o.Kind.Prefix() {
			kind = "prefix"
		}
		if o.Key+"/"+kind == pk {
			out = append(out, o)
		}
	}
	sort.Slice(out, func(i, j int) bool { return out[i].Call < out[j].Call })
	return out
}

func storeEvents(res *ChurnResult, pk string) []StoreEvent {
	if res.StoreEventsFor == nil {
		return nil
	}
	return res.StoreEventsFor(pk[:strings.Index(pk, "/")])
}

// writtenToNonOwner explains a misplaced key from the store-level record: the node holds the
// key because it executed a client write for it (not an import) at a time when another node
// that had definitely joined and had not been asked to leave was the owner.
func writtenToNonOwner(res *ChurnResult, node uint64, key string, hash uint64) (owner uint64, at int64, ok bool) {
	if res.StoreEventsFor == nil {
		return 0, 0, false
	}
	evs := res.StoreEventsFor(key)
	// originOf: the event that created the copy node holds as of time upto
	originOf := func(node uint64, upto int64) (StoreEvent, bool) {
		present := false
		var origin StoreEvent
		for _, e := range evs {
			if e.Node != node || e.T > upto {
				continue
			}
			switch e.Op {
			case "RemoveKeys":
				present = false
			case "Put", "Append", "Import":
				if !present && strings.HasPrefix(e.Res, "ok") {
					present = true
					origin = e
				}
			}
		}
		return origin, present
	}
	cur, upto := node, int64(1)<<62
	for depth := 0; depth < 6; depth++ {
		origin, present := originOf(cur, upto)
		if !present {
			return 0, 0, false
		}
		if origin.Op != "Import" {
			// a client write: was another definite member the owner then?
			if o := definiteOwner(res, cur, origin.T, hash); o != cur {
				return o, origin.T, true
			}
			return 0, 0, false
		}
		// the copy was handed over by a leaving/transferring node: follow it back to the node that
		// exported it (the last Export of the key by another node before this Import) and ask how
		// THAT node came to hold it — a misplaced write travels with its holder's hand-overs
		var src *StoreEvent
		for i := range evs {
			e := &evs[i]
			if e.Op == "Export" && e.Node != cur && e.T <= origin.T && strings.HasPrefix(e.Res, "ok") {
				src = e
			}
		}
		if src == nil {
			return 0, 0, false
		}
		cur, upto = src.Node, src.T
	}
	return 0, 0, false
}

// ackedWriteWentToNonOwner: the acknowledged write that the failing read misses (the last
// acknowledged value, or the append of a child the read does not show) was executed by the
// store of a node that was not the owner at that time (see writtenToNonOwner).
func ackedWriteWentToNonOwner(res *ChurnResult, read OpRec, m *keyModel) (owner uint64, at int64, ok bool) {
	if res.StoreEventsFor == nil {
		return 0, 0, false
	}
	evs := res.StoreEventsFor(read.Key)
	hash := chord.Hash([]byte(read.Key))
	check := func(op, arg string) (uint64, int64, bool) {
		var last *StoreEvent
		for i := range evs {
			if evs[i].Op == op && evs[i].Arg == arg && strings.HasPrefix(evs[i].Res, "ok") {
				last = &evs[i]
			}
		}
		if last == nil {
			return 0, 0, false
		}
		ids := []uint64{last.Node}
		for id, sp := range res.Timeline {
			if id == last.Node || sp.Joined == 0 || sp.Joined > last.T || (sp.LeaveStart != 0 && sp.LeaveStart <= last.T) {
				continue
			}
			ids = append(ids, id)
		}
		sort.Slice(ids, func(i, j int) bool { return ids[i] < ids[j] })
		if o := OwnerOf(ids, hash); o != last.Node {
			return o, last.T, true
		}
		return 0, 0, false
	}
	switch read.Kind {
	case OpGet:
		if read.Value != m.value {
			// a value that resurfaced (or is stale) was written on a non-owner's copy and came back
			// with a later hand-over; a missing value was acknowledged by a non-owner; a delete that
			// did not stick was executed on a non-owner's copy
			if read.Value != "" {
				if o, t, ok := check("Put", read.Value); ok {
					return o, t, true
				}
			}
			if m.value != "" {
				return check("Put", m.value)
			}
			return check("Delete", "")
		}
	case OpList:
		have := map[string]bool{}
		for _, c := range read.List {
			have[c] = true
		}
		for c, present := range m.children {
			if present && !have[c] {
				if o, t, ok := check("Append", c); ok {
					return o, t, true
				}
			}
		}
		for c := range have {
			if !m.children[c] {
				if o, t, ok := check("Remove", c); ok {
					return o, t, true
				}
				if o, t, ok := check("Append", c); ok {
					return o, t, true
				}
			}
		}
	case OpContains:
		if m.children[read.Arg] && !read.Bool {
			return check("Append", read.Arg)
		}
		if !m.children[read.Arg] && read.Bool {
			if o, t, ok := check("Remove", read.Arg); ok {
				return o, t, true
			}
			return check("Append", read.Arg)
		}
	case OpAppend:
		if m.children[read.Arg] && !read.Conflict {
			return check("Append", read.Arg)
		}
	}
	return 0, 0, false
}

// anyClientWriteOnNonOwner: some successful client write of the key was executed by the store
// of a node while another node that had definitely joined and was not leaving owned the key.
func anyClientWriteOnNonOwner(res *ChurnResult, key string) (owner uint64, at int64, ok bool) {
	if res.StoreEventsFor == nil {
		return 0, 0, false
	}
	hash := chord.Hash([]byte(key))
	for _, e := range res.StoreEventsFor(key) {
		switch e.Op {
		case "Put", "Delete", "Append", "Remove":
		default:
			continue
		}
		if !strings.HasPrefix(e.Res, "ok") {
			continue
		}
		ids := []uint64{e.Node}
		for id, sp := range res.Timeline {
			if id == e.Node || sp.Joined == 0 || sp.Joined > e.T || (sp.LeaveStart != 0 && sp.LeaveStart <= e.T) {
				continue
			}
			ids = append(ids, id)
		}
		sort.Slice(ids, func(i, j int) bool { return ids[i] < ids[j] })
		if o := OwnerOf(ids, hash); o != e.Node {
			return o, e.T, true
		}
	}
	return 0, 0, false
}

// CheckPredPointer turns what the predecessor-pointer monitor recorded into findings. A
// predecessor pointer that moves away from a live node makes its owner claim (and accept writes
// for) a range that belongs to that node: the behavioural oracles would only see the data that
// was misplaced by it, this one sees the cause.
func CheckPredPointer(res *ChurnResult) (findings []Finding) {
	for i, r := range res.PredRegressions {
		if i >= 3 {
			break
		}
		key := "predecessor-moved-away-from-live-node"
		if r.Succ {
			key = "successor-moved-away-from-live-node"
		}
		findings = append(findings, Finding{Key: key, What: r.String(),
			Witness: map[string]any{"regression": r, "member_log": res.MemberLog, "hook_log": tailStr(res.HookLog, 80)}})
	}
	return
}

func tailStr(a []string, n int) []string {
	if len(a) > n {
		return a[len(a)-n:]
	}
	return a
}

func definiteOwner(res *ChurnResult, node uint64, t int64, hash uint64) uint64 {
	ids := []uint64{node}
	for id, sp := range res.Timeline {
		if id == node || sp.Joined == 0 || sp.Joined > t || (sp.LeaveStart != 0 && sp.LeaveStart <= t) {
			continue
		}
		ids = append(ids, id)
	}
	sort.Slice(ids, func(i, j int) bool { return ids[i] < ids[j] })
	return OwnerOf(ids, hash)
}

// anyClientReadOnNonOwner: some client read of the key (Get for the simple partition;
// List / Contains for the prefix partition) was answered by the store of a node while another
// node that had definitely joined and was not leaving owned the key.
func anyClientReadOnNonOwner(res *ChurnResult, key string, prefix bool) (owner uint64, at int64, ok bool) {
	if res.StoreEventsFor == nil {
		return 0, 0, false
	}
	hash := chord.Hash([]byte(key))
	for _, e := range res.StoreEventsFor(key) {
		switch e.Op {
		case "Get":
			if prefix {
				continue
			}
		case "List", "Contains":
			if !prefix {
				continue
			}
		default:
			continue
		}
		if !strings.HasSuffix(e.Res, "ok") {
			continue
		}
		if o := definiteOwner(res, e.Node, e.T, hash); o != e.Node {
			return o, e.T, true
		}
	}
	return 0, 0, false
}

// readServedByNonOwner: the store-level execution of this very read (same key, matching
// operation, inside the read's [call, return]) happened on a node that was not the owner.
func readServedByNonOwner(res *ChurnResult, read OpRec) (node, owner uint64, at int64, ok bool) {
	if res.StoreEventsFor == nil {
		return
	}
	want := map[OpKind]string{OpGet: "Get", OpList: "List", OpContains: "Contains"}[read.Kind]
	if want == "" {
		return
	}
	hash := chord.Hash([]byte(read.Key))
	for _, e := range res.StoreEventsFor(read.Key) {
		if e.Op != want || e.T < read.Call/1000-1 || e.T > read.Return/1000+1 {
			continue
		}
		if o := definiteOwner(res, e.Node, e.T, hash); o != e.Node {
			return e.Node, o, e.T, true
		}
	}
	return
}

// CheckResidue: after a hand-over nothing of a key may stay behind on the node that gave it away.
func CheckResidue(res *ChurnResult) (findings []Finding) {
	for i, r := range res.HiddenResidue {
		if i >= 3 {
			break
		}
		findings = append(findings, Finding{Key: "hidden-residue-after-hand-over", What: r, Witness: map[string]any{"all": res.HiddenResidue, "member_log": res.MemberLog}})
	}
	return
}
