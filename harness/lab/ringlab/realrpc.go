package ringlab

import (
	"context"
	"fmt"
	"net"
	"sync"

	rchord "go.miragespace.co/specter/chord"
	"go.miragespace.co/specter/spec/chord"
	"go.miragespace.co/specter/spec/protocol"
	"go.miragespace.co/specter/spec/rpc"
	"go.miragespace.co/specter/spec/transport"
	"go.miragespace.co/specter/util/bufconn"

	"go.uber.org/zap"
)

// RealRPC wiring: every node has its own in-memory transport; inter-node references are
// the repository's own chord.RemoteNode objects, so every inter-node call goes through
// rpc.DynamicChordClient -> HTTP/2 over an in-memory stream -> StreamRouter -> the
// node's twirp servers (chord/server_rpc.go) -> LocalNode, with the production
// timeouts and error mapping. No fault plan and no hop counting in this mode.
const RealRPC Mode = 2

type memNet struct {
	lab   *Lab
	mu    sync.Mutex
	nodes map[uint64]*memTransport
	ctx   context.Context
	stop  context.CancelFunc
}

type memTransport struct {
	net    *memNet
	ident  *protocol.Node
	accept chan *transport.StreamDelegate
}

var _ transport.Transport = (*memTransport)(nil)

func (t *memTransport) Identity() *protocol.Node { return t.ident }

func (t *memTransport) DialStream(ctx context.Context, peer *protocol.Node, kind protocol.Stream_Type) (net.Conn, error) {
	t.net.mu.Lock()
	dst := t.net.nodes[peer.GetId()]
	t.net.mu.Unlock()
	if dst == nil {
		return nil, fmt.Errorf("memnet: no route to node %d", peer.GetId())
	}
	if m := t.net.lab.Member(peer.GetId()); m != nil && m.State() == chord.Left {
		// the process of a node that has left is gone: connections are refused at once (without
		// this a left node would be a black hole and every call to it would cost the 10 s RPC
		// timeout, freezing the callers' stabilization for longer than the churn takes)
		return nil, fmt.Errorf("memnet: connection refused by node %d (it has left)", peer.GetId())
	}
	c1, c2 := bufconn.BufferedPipe(8192)
	select {
	case dst.accept <- &transport.StreamDelegate{Conn: c1, Identity: &protocol.Node{Id: peer.GetId(), Address: t.ident.GetAddress()}, Kind: kind}:
		return c2, nil
	case <-ctx.Done():
		c1.Close()
		c2.Close()
		return nil, ctx.Err()
	}
}
func (t *memTransport) AcceptStream() <-chan *transport.StreamDelegate      { return t.accept }
func (t *memTransport) ListConnected() []transport.ConnectedPeer            { return nil }
func (t *memTransport) SupportDatagram() bool                               { return false }
func (t *memTransport) ReceiveDatagram() <-chan *transport.DatagramDelegate { return nil }
func (t *memTransport) SendDatagram(*protocol.Node, []byte) error           { return transport.ErrNoDirect }

func (l *Lab) memnet() *memNet {
	l.mu.Lock()
	defer l.mu.Unlock()
	if l.mnet == nil {
		ctx, cancel := context.WithCancel(context.Background())
		l.mnet = &memNet{lab: l, nodes: map[uint64]*memTransport{}, ctx: ctx, stop: cancel}
	}
	return l.mnet
}

// realRPCNode wires cfg to its own transport/router and returns the client to put into it.
func (l *Lab) realRPCClient(ident *protocol.Node) (rpc.ChordClient, func(n *rchord.LocalNode)) {
	mn := l.memnet()
	tp := &memTransport{net: mn, ident: ident, accept: make(chan *transport.StreamDelegate, 64)}
	mn.mu.Lock()
	mn.nodes[ident.GetId()] = tp
	mn.mu.Unlock()
	client := rpc.DynamicChordClient(mn.ctx, tp)
	attach := func(n *rchord.LocalNode) {
		router := transport.NewStreamRouter(zap.NewNop(), tp, nil)
		n.AttachRouter(mn.ctx, router)
		go router.Accept(mn.ctx)
	}
	return client, attach
}

func (l *Lab) remoteRef(m *Member) chord.VNode {
	mn := l.memnet()
	// the reference a third party would build from the node's identity
	var client rpc.ChordClient
	mn.mu.Lock()
	for _, t := range mn.nodes {
		if t.ident.GetId() != m.ID {
			client = l.clients[t.ident.GetId()]
			break
		}
	}
	mn.mu.Unlock()
	if client == nil {
		client = l.clients[m.ID]
	}
	rn, err := rchord.NewRemoteNode(mn.ctx, zap.NewNop(), client, m.Node.Identity())
	if err != nil {
		panic(err)
	}
	return rn
}
