package ringlab

import (
	"context"
	"fmt"
	"sort"
	"sync"
	"time"

	"go.miragespace.co/specter/spec/chord"
	"go.miragespace.co/specter/spec/protocol"
)

// StoreEvent is one call that reached a node's own store (diagnostics for witnesses).
type StoreEvent struct {
	T    int64  `json:"t_us"`
	Node uint64 `json:"node"`
	Op   string `json:"op"`
	Key  string `json:"key"`
	Arg  string `json:"arg,omitempty"`
	Res  string `json:"res,omitempty"`
}

type storeLog struct {
	mu  sync.Mutex
	evs []StoreEvent
}

func (s *storeLog) add(e StoreEvent) {
	e.T = mono() / 1000
	s.mu.Lock()
	if len(s.evs) < 200000 {
		s.evs = append(s.evs, e)
	}
	s.mu.Unlock()
}

// StoreEventsFor returns the store-level events that touched key (incl. transfers).
func (l *Lab) StoreEventsFor(key string) []StoreEvent {
	l.storeLog.mu.Lock()
	defer l.storeLog.mu.Unlock()
	out := []StoreEvent{}
	for _, e := range l.storeLog.evs {
		if e.Key == key {
			out = append(out, e)
		}
	}
	sort.SliceStable(out, func(i, j int) bool { return out[i].T < out[j].T })
	return out
}

type recKV struct {
	chord.KVProvider
	node uint64
	log  *storeLog
}

func errS(err error) string {
	if err == nil {
		return "ok"
	}
	return "err:" + err.Error()
}

func (r *recKV) Put(ctx context.Context, key, value []byte) error {
	err := r.KVProvider.Put(ctx, key, value)
	r.log.add(StoreEvent{Node: r.node, Op: "Put", Key: string(key), Arg: string(value), Res: errS(err)})
	return err
}
func (r *recKV) Get(ctx context.Context, key []byte) ([]byte, error) {
	v, err := r.KVProvider.Get(ctx, key)
	r.log.add(StoreEvent{Node: r.node, Op: "Get", Key: string(key), Res: string(v) + "/" + errS(err)})
	return v, err
}
func (r *recKV) Delete(ctx context.Context, key []byte) error {
	err := r.KVProvider.Delete(ctx, key)
	r.log.add(StoreEvent{Node: r.node, Op: "Delete", Key: string(key), Res: errS(err)})
	return err
}
func (r *recKV) PrefixAppend(ctx context.Context, prefix, child []byte) error {
	err := r.KVProvider.PrefixAppend(ctx, prefix, child)
	r.log.add(StoreEvent{Node: r.node, Op: "Append", Key: string(prefix), Arg: string(child), Res: errS(err)})
	return err
}
func (r *recKV) PrefixRemove(ctx context.Context, prefix, child []byte) error {
	err := r.KVProvider.PrefixRemove(ctx, prefix, child)
	r.log.add(StoreEvent{Node: r.node, Op: "Remove", Key: string(prefix), Arg: string(child), Res: errS(err)})
	return err
}
func (r *recKV) PrefixContains(ctx context.Context, prefix, child []byte) (bool, error) {
	b, err := r.KVProvider.PrefixContains(ctx, prefix, child)
	r.log.add(StoreEvent{Node: r.node, Op: "Contains", Key: string(prefix), Arg: string(child), Res: fmt.Sprint(b) + "/" + errS(err)})
	return b, err
}
func (r *recKV) PrefixList(ctx context.Context, prefix []byte) ([][]byte, error) {
	l, err := r.KVProvider.PrefixList(ctx, prefix)
	r.log.add(StoreEvent{Node: r.node, Op: "List", Key: string(prefix), Res: fmt.Sprintf("%q/%s", l, errS(err))})
	return l, err
}
func (r *recKV) Import(ctx context.Context, keys [][]byte, values []*protocol.KVTransfer) error {
	err := r.KVProvider.Import(ctx, keys, values)
	for i, k := range keys {
		arg := ""
		if i < len(values) && values[i] != nil {
			arg = fmt.Sprintf("simple=%q children=%q lease=%d", values[i].GetSimpleValue(), values[i].GetPrefixChildren(), values[i].GetLeaseToken())
		}
		r.log.add(StoreEvent{Node: r.node, Op: "Import", Key: string(k), Arg: arg, Res: errS(err)})
	}
	return err
}
func (r *recKV) Export(ctx context.Context, keys [][]byte) ([]*protocol.KVTransfer, error) {
	vals, err := r.KVProvider.Export(ctx, keys)
	for i, k := range keys {
		arg := ""
		if i < len(vals) && vals[i] != nil {
			arg = fmt.Sprintf("simple=%q children=%q lease=%d", vals[i].GetSimpleValue(), vals[i].GetPrefixChildren(), vals[i].GetLeaseToken())
		}
		r.log.add(StoreEvent{Node: r.node, Op: "Export", Key: string(k), Arg: arg, Res: errS(err)})
	}
	return vals, err
}
func (r *recKV) RemoveKeys(ctx context.Context, keys [][]byte) error {
	err := r.KVProvider.RemoveKeys(ctx, keys)
	for _, k := range keys {
		r.log.add(StoreEvent{Node: r.node, Op: "RemoveKeys", Key: string(k), Res: errS(err)})
	}
	return err
}

var _ = time.Now
