// Package ringlab runs a ring of real chord.LocalNodes in one process.
//
// Two wirings: Direct (nodes hold each other as *LocalNode, like the
// repository's tests) and NetV: every inter-node reference is a proxy that
// forwards to the target node, re-wraps node-valued arguments and results in
// fresh proxy objects (the aliasing RemoteNode produces: identity only by
// ID), counts hops, and consults a fault plan (fail before delivery / lose
// the response after delivery).
//
// The chord hook (build tag verif) is dispatched here: per-node round
// counters (logical time), an event log for monitors, seeded delays, and
// user callbacks that may block a node at a point.
package ringlab

import (
	"context"
	"errors"
	"fmt"
	"math/rand"
	"os"
	"runtime"
	"sort"
	"strings"
	"sync"
	"sync/atomic"
	"time"

	rchord "go.miragespace.co/specter/chord"
	"go.miragespace.co/specter/kv/aof"
	"go.miragespace.co/specter/kv/memory"
	"go.miragespace.co/specter/kv/sqlite3"
	"go.miragespace.co/specter/spec/chord"
	"go.miragespace.co/specter/spec/mocks"
	"go.miragespace.co/specter/spec/protocol"
	"go.miragespace.co/specter/spec/rpc"
	"go.miragespace.co/specter/spec/rtt"

	"go.uber.org/zap"
)

const M = uint64(1) << 48

type Mode int

const (
	Direct Mode = iota
	NetV
)

type Backend int

const (
	Memory Backend = iota
	AOF
	SQLite
)

func (b Backend) String() string { return [...]string{"memory", "aof", "sqlite"}[b] }

type noopRTT struct{}

func (noopRTT) Snapshot(string, time.Duration) *rtt.Statistics { return &rtt.Statistics{} }
func (noopRTT) RecordLatency(string, float64)                  {}
func (noopRTT) RecordSent(string)                              {}
func (noopRTT) RecordLost(string)                              {}
func (noopRTT) Drop(string)                                    {}

type Options struct {
	Mode              Mode
	Stabilize         time.Duration // default 3ms
	FixFinger         time.Duration // default 5ms
	PredecessorCheck  time.Duration // default 7ms
	Seed              int64
	HookDelayMaxMicro int // 0 = no seeded delays inside hooks
	DelayPoints       map[string]bool
	ScratchDir        string
	RecordEvents      bool
	RecordStores      bool // wrap every node's store with a call recorder (diagnostics)
	// MonitorPred: at the lock-free hook points (end of a stabilize / fix-finger / predecessor-check
	// round, after Notify applied) the node's predecessor pointer is sampled and checked against
	// the previous sample: while the node it named is still a live member, the pointer may only
	// move to a node strictly between that node and this one (closer), never away
	MonitorPred bool
	// Stragglers: at these hook points one hit in StragglerOneIn stalls for StragglerMicro/2 ..
	// StragglerMicro microseconds — long enough for a whole join or leave to complete while one
	// step of another operation (a Notify between its ping and its apply, a stabilize round between
	// reading and storing its list) is held up, as happens when an RPC is slow
	StragglerPoints map[string]bool
	StragglerOneIn  int
	StragglerMicro  int
}

type Event struct {
	Seq   int64
	T     int64 // microseconds on the lab clock
	Point string
	Node  uint64
}

// MembershipCall is one RequestToJoin / RequestToLeave as seen by the proxy
// (client boundary of the membership protocol).
type MembershipCall struct {
	Method  string
	Target  uint64
	Subject uint64 // joiner / leaver
	H0, H1  int    // length of the target's lifecycle history before the call and after it returned
	History []chord.State
	Err     error
}

type Member struct {
	ID      uint64
	Node    *rchord.LocalNode
	Backend Backend
	lab     *Lab
	closeKV func()
	dir     string
}

type Lab struct {
	opt Options

	mu      sync.Mutex
	members map[uint64]*Member
	rng     *rand.Rand

	// hook state
	rounds   sync.Map // key "point/id" -> *atomic.Int64
	evMu     sync.Mutex
	events   []Event
	evSeq    atomic.Int64
	cbMu     sync.RWMutex
	cbs      map[string][]func(point string, node uint64)
	HookHits sync.Map // point -> *atomic.Int64

	// netv
	Faults   *FaultPlan
	hopsMu   sync.Mutex
	hops     map[int64]int // goroutine id -> hops of the lookup in progress
	MaxHops  atomic.Int64
	HopLimit atomic.Int64
	Calls    sync.Map // method -> *atomic.Int64

	storeLog storeLog

	mnet    *memNet
	clients map[uint64]rpc.ChordClient

	mcMu   sync.Mutex
	MCalls []MembershipCall

	predMu         sync.Mutex
	lastPred       map[uint64]predSample
	lastSucc       map[uint64]predSample
	PredRegression []PredRegression

	// freeze of the periodic tasks (see FreezePeriodic)
	frozen    atomic.Bool
	abandoned atomic.Bool
	frzMu     sync.Mutex
	parked    map[string]bool
	frzRelase chan struct{}
}

var sqliteInit sync.Once

func New(opt Options) *Lab {
	if opt.Stabilize == 0 {
		opt.Stabilize = 3 * time.Millisecond
	}
	if opt.FixFinger == 0 {
		opt.FixFinger = 5 * time.Millisecond
	}
	if opt.PredecessorCheck == 0 {
		opt.PredecessorCheck = 7 * time.Millisecond
	}
	l := &Lab{
		opt:     opt,
		members: map[uint64]*Member{},
		rng:     rand.New(rand.NewSource(opt.Seed)),
		cbs:     map[string][]func(string, uint64){},
		hops:    map[int64]int{},
		clients: map[uint64]rpc.ChordClient{},
	}
	rchord.VerifSetHook(l.hook)
	return l
}

// Close removes the hook; nodes must have been stopped by the caller.
func (l *Lab) Close() {
	if l.abandoned.Load() {
		return
	}
	l.Unfreeze()
	rchord.VerifSetHook(nil)
	if l.mnet != nil {
		l.mnet.stop()
	}
	l.mu.Lock()
	for _, m := range l.members {
		if m.closeKV != nil {
			m.closeKV()
			m.closeKV = nil
		}
	}
	l.mu.Unlock()
}

func counter(m *sync.Map, key string) *atomic.Int64 {
	if v, ok := m.Load(key); ok {
		return v.(*atomic.Int64)
	}
	v, _ := m.LoadOrStore(key, new(atomic.Int64))
	return v.(*atomic.Int64)
}

func (l *Lab) hook(point string, node uint64) {
	counter(&l.HookHits, point).Add(1)
	switch point {
	case "stab.done", "fix.done", "cp.done":
		counter(&l.rounds, fmt.Sprintf("%s/%d", point, node)).Add(1)
	}
	if l.opt.RecordEvents {
		switch point {
		case "stab.done", "fix.done", "cp.done", "stab.read", "stab.update", "kv.found":
		default:
			l.evMu.Lock()
			l.events = append(l.events, Event{Seq: l.evSeq.Add(1), T: mono() / 1000, Point: point, Node: node})
			l.evMu.Unlock()
		}
	}
	if l.frozen.Load() {
		switch point {
		case "stab.done", "fix.done", "cp.done":
			if onStack("chord.(*LocalNode).periodic") {
				l.park(point, node)
				return
			}
		}
	}
	if l.opt.MonitorPred {
		switch point {
		case "stab.done", "fix.done", "cp.done", "notify.applied":
			l.samplePred(point, node)
		case "join.requested":
			// a successor has just made the joiner its predecessor (RequestToJoin returned on this
			// goroutine, no lock of any node is held here): every node is sampled, so that this
			// change is not skipped — the monitor judges transitions and must see each of them
			for _, m := range l.All() {
				if m.ID != node && m.Node != nil && !m.Stopped() {
					l.samplePred(point, m.ID)
				}
			}
		}
	}
	l.cbMu.RLock()
	cbs := append(append([]func(string, uint64){}, l.cbs[point]...), l.cbs["*"]...)
	l.cbMu.RUnlock()
	for _, cb := range cbs {
		cb(point, node)
	}
	if l.opt.StragglerMicro > 0 && l.opt.StragglerPoints[point] {
		l.mu.Lock()
		hit := l.rng.Intn(max(1, l.opt.StragglerOneIn)) == 0
		d := l.opt.StragglerMicro/2 + l.rng.Intn(l.opt.StragglerMicro/2+1)
		l.mu.Unlock()
		if hit {
			counter(&l.HookHits, "straggler:"+point).Add(1)
			time.Sleep(time.Duration(d) * time.Microsecond)
		}
	}
	if l.opt.HookDelayMaxMicro > 0 && (l.opt.DelayPoints == nil || l.opt.DelayPoints[point]) {
		l.mu.Lock()
		d := l.rng.Intn(l.opt.HookDelayMaxMicro + 1)
		coin := l.rng.Intn(4)
		l.mu.Unlock()
		if coin == 0 {
			time.Sleep(time.Duration(d) * time.Microsecond)
		} else if coin == 1 {
			for i := 0; i < 3; i++ {
				runtimeGosched()
			}
		}
	}
}

// On registers a callback for a hook point ("*" = every point).
func (l *Lab) On(point string, cb func(point string, node uint64)) {
	l.cbMu.Lock()
	l.cbs[point] = append(l.cbs[point], cb)
	l.cbMu.Unlock()
}

func (l *Lab) ClearCallbacks() {
	l.cbMu.Lock()
	l.cbs = map[string][]func(string, uint64){}
	l.cbMu.Unlock()
}

func (l *Lab) Events() []Event {
	l.evMu.Lock()
	defer l.evMu.Unlock()
	return append([]Event{}, l.events...)
}

func (l *Lab) Rounds(point string, node uint64) int64 {
	return counter(&l.rounds, fmt.Sprintf("%s/%d", point, node)).Load()
}

func (l *Lab) Hits(point string) int64 { return counter(&l.HookHits, point).Load() }

// Spawn creates (but does not start) a node with the given id and backend.
func (l *Lab) Spawn(id uint64, be Backend) (*Member, error) {
	m := &Member{ID: id, Backend: be, lab: l}
	var kv chord.KVProvider
	switch be {
	case Memory:
		kv = memory.WithHashFn(chord.Hash)
	case AOF:
		dir, err := os.MkdirTemp(l.opt.ScratchDir, "aof-")
		if err != nil {
			return nil, err
		}
		d, err := aof.New(aof.Config{Logger: zap.NewNop(), HasnFn: chord.Hash, DataDir: dir, FlushInterval: 50 * time.Millisecond})
		if err != nil {
			return nil, err
		}
		go d.Start()
		kv = d
		m.dir = dir
		m.closeKV = func() { d.Stop(); os.RemoveAll(dir) }
	case SQLite:
		var ierr error
		sqliteInit.Do(func() {
			cache := os.Getenv("VERIF_ROOT")
			if cache == "" {
				cache = "/verif"
			}
			cache += "/.cache/wazero"
			_ = os.MkdirAll(cache, 0o755)
			ierr = sqlite3.Initialize(cache)
		})
		if ierr != nil {
			return nil, ierr
		}
		dir, err := os.MkdirTemp(l.opt.ScratchDir, "sqlite-")
		if err != nil {
			return nil, err
		}
		s, err := sqlite3.New(sqlite3.Config{Logger: zap.NewNop(), HashFn: chord.Hash, DataDir: dir})
		if err != nil {
			return nil, err
		}
		kv = s
		m.dir = dir
		m.closeKV = func() { s.Close(); os.RemoveAll(dir) }
	}
	if l.opt.RecordStores {
		kv = &recKV{KVProvider: kv, node: id, log: &l.storeLog}
	}
	ident := &protocol.Node{Id: id, Address: fmt.Sprintf("node-%d", id)}
	var cc rpc.ChordClient = new(mocks.ChordClient)
	var attach func(*rchord.LocalNode)
	if l.opt.Mode == RealRPC {
		cc, attach = l.realRPCClient(ident)
		l.mu.Lock()
		l.clients[id] = cc
		l.mu.Unlock()
	}
	m.Node = rchord.NewLocalNode(rchord.NodeConfig{
		KVProvider:               kv,
		ChordClient:              cc,
		BaseLogger:               zap.NewNop(),
		Identity:                 ident,
		NodesRTT:                 noopRTT{},
		StabilizeInterval:        l.opt.Stabilize,
		FixFingerInterval:        l.opt.FixFinger,
		PredecessorCheckInterval: l.opt.PredecessorCheck,
	})
	if attach != nil {
		attach(m.Node)
	}
	l.mu.Lock()
	l.members[id] = m
	l.mu.Unlock()
	return m, nil
}

func (l *Lab) Member(id uint64) *Member {
	l.mu.Lock()
	defer l.mu.Unlock()
	return l.members[id]
}

func (l *Lab) All() []*Member {
	l.mu.Lock()
	defer l.mu.Unlock()
	out := make([]*Member, 0, len(l.members))
	for _, m := range l.members {
		out = append(out, m)
	}
	sort.Slice(out, func(i, j int) bool { return out[i].ID < out[j].ID })
	return out
}

// Ref returns the reference other nodes use for m (the node itself, or a proxy).
func (l *Lab) Ref(m *Member) chord.VNode {
	if l.opt.Mode == Direct {
		return m.Node
	}
	if l.opt.Mode == RealRPC {
		return l.remoteRef(m)
	}
	return &netVNode{lab: l, target: m.ID, ident: m.Node.Identity()}
}

func (m *Member) Create() error { return m.Node.Create() }

func (m *Member) Join(via *Member) error { return m.Node.Join(m.lab.Ref(via)) }

func (m *Member) Leave() { m.Node.Leave() }

func (m *Member) State() chord.State { return m.Node.VerifState() }

// IsMember: the node currently takes part in the ring (it owns a range).
func (m *Member) IsMember() bool {
	switch m.State() {
	case chord.Active, chord.Transferring, chord.Leaving:
		return true
	}
	return false
}

// Stopped: background tasks are no longer running (never started, or left).
func (m *Member) Stopped() bool {
	switch m.State() {
	case chord.Inactive, chord.Left:
		return true
	}
	return false
}

// Live returns the current members sorted by id.
func (l *Lab) Live() []*Member {
	out := []*Member{}
	for _, m := range l.All() {
		if m.IsMember() {
			out = append(out, m)
		}
	}
	return out
}

// FreezePeriodic parks every node's three periodic task loops (stabilize, fix-finger,
// predecessor check) at the hook that ends their current round, and returns once all loops
// of all live members are parked: from then on pointers change only through the protocol
// steps the test itself drives (join/leave advisories run their own stabilize/fix-finger),
// so the state observed at a hook is not repaired behind the probe's back, however slowly
// the probe goroutines get scheduled. Loops started later (a joiner's) park after their
// first round. Unfreeze releases them; StopAll and Close unfreeze first.
func (l *Lab) FreezePeriodic(timeout time.Duration) bool {
	l.frzMu.Lock()
	if l.parked == nil {
		l.parked = map[string]bool{}
	}
	if l.frzRelase == nil {
		l.frzRelase = make(chan struct{})
	}
	l.frzMu.Unlock()
	l.frozen.Store(true)
	deadline := time.Now().Add(timeout)
	for {
		all := true
		l.frzMu.Lock()
		for _, m := range l.Live() {
			// (the predecessor check has no round end when there is no predecessor to check;
			// it parks when it has one, and it never touches successors or fingers)
			for _, p := range []string{"stab.done", "fix.done"} {
				if !l.parked[fmt.Sprintf("%s/%d", p, m.ID)] {
					all = false
				}
			}
		}
		l.frzMu.Unlock()
		if all {
			return true
		}
		if time.Now().After(deadline) {
			return false
		}
		time.Sleep(2 * time.Millisecond)
	}
}

func (l *Lab) park(point string, node uint64) {
	k := fmt.Sprintf("%s/%d", point, node)
	l.frzMu.Lock()
	ch := l.frzRelase
	if ch == nil || !l.frozen.Load() {
		l.frzMu.Unlock()
		return
	}
	l.parked[k] = true
	l.frzMu.Unlock()
	// parked until the lab unfreezes — or until the node itself is on its way out (Leave waits
	// for its task loops to end, so they must be able to reach their stop check)
	t := time.NewTicker(time.Millisecond)
	defer t.Stop()
wait:
	for {
		select {
		case <-ch:
			break wait
		case <-t.C:
			if m := l.Member(node); m != nil {
				if st := m.State(); st == chord.Leaving || st == chord.Left {
					break wait
				}
			}
		}
	}
	l.frzMu.Lock()
	delete(l.parked, k)
	l.frzMu.Unlock()
}

func (l *Lab) Unfreeze() {
	l.frzMu.Lock()
	l.frozen.Store(false)
	if l.frzRelase != nil {
		close(l.frzRelase)
		l.frzRelase = nil
	}
	l.frzMu.Unlock()
}

func onStack(frag string) bool {
	buf := make([]byte, 8<<10)
	n := runtime.Stack(buf, false)
	return strings.Contains(string(buf[:n]), frag)
}

// Abandon gives the lab up: a node is wedged for good (a call into it holds one of its locks and
// will never return), so making the nodes leave would block as well. StopAll and Close become
// no-ops; the goroutines stay behind until the process ends.
func (l *Lab) Abandon() { l.abandoned.Store(true); l.Unfreeze() }

// StopAll makes every running node leave (best effort) so goroutines end.
func (l *Lab) StopAll() {
	if l.abandoned.Load() {
		return
	}
	l.Unfreeze()
	for _, m := range l.All() {
		if !m.Stopped() {
			m.Node.Leave()
		}
	}
}

// ---------------------------------------------------------------------------
// sorted-ring oracle

type Expect struct {
	Pred    uint64
	Succs   []uint64
	Fingers [48]uint64
}

// OwnerOf returns the first id in sorted ids at or clockwise after x.
func OwnerOf(ids []uint64, x uint64) uint64 {
	i := sort.Search(len(ids), func(i int) bool { return ids[i] >= x })
	if i == len(ids) {
		return ids[0]
	}
	return ids[i]
}

func ExpectFor(ids []uint64, self uint64) Expect {
	n := len(ids)
	i := sort.Search(n, func(i int) bool { return ids[i] >= self })
	var e Expect
	e.Pred = ids[(i-1+n)%n]
	k := n
	if k > chord.ExtendedSuccessorEntries {
		k = chord.ExtendedSuccessorEntries
	}
	for j := 1; j <= k; j++ {
		e.Succs = append(e.Succs, ids[(i+j)%n])
	}
	for f := 1; f <= 48; f++ {
		e.Fingers[f-1] = OwnerOf(ids, (self+(uint64(1)<<(f-1)))%M)
	}
	return e
}

// PointerDiff compares every live node's pointers with the oracle; "" = equal.
func (l *Lab) PointerDiff(checkFingers bool) string {
	live := l.Live()
	if len(live) == 0 {
		return ""
	}
	ids := make([]uint64, len(live))
	for i, m := range live {
		ids[i] = m.ID
	}
	for _, m := range live {
		if m.State() != chord.Active {
			return fmt.Sprintf("node %d state %s", m.ID, m.State())
		}
		p := m.Node.VerifPointers()
		e := ExpectFor(ids, m.ID)
		if p.Predecessor == nil {
			return fmt.Sprintf("node %d predecessor nil, want %d", m.ID, e.Pred)
		}
		if *p.Predecessor != e.Pred {
			return fmt.Sprintf("node %d predecessor %d, want %d", m.ID, *p.Predecessor, e.Pred)
		}
		if len(p.Successors) != len(e.Succs) {
			return fmt.Sprintf("node %d successors %v, want %v", m.ID, p.Successors, e.Succs)
		}
		for i := range e.Succs {
			if p.Successors[i] != e.Succs[i] {
				return fmt.Sprintf("node %d successors %v, want %v", m.ID, p.Successors, e.Succs)
			}
		}
		if checkFingers {
			for f := 0; f < 48; f++ {
				if !p.FingersPresent[f] || p.Fingers[f] != e.Fingers[f] {
					return fmt.Sprintf("node %d finger %d = %d (present=%v), want %d", m.ID, f+1, p.Fingers[f], p.FingersPresent[f], e.Fingers[f])
				}
			}
		}
	}
	return ""
}

type Convergence struct {
	Converged bool
	Rounds    int64 // completed stabilize rounds (min over live nodes) when it converged / gave up
	Diff      string
	Watchdog  bool
}

// WaitConverged polls until the pointer oracle holds for every live node, or
// until every live node has completed maxRounds rounds of each background task
// since the call (logical time), or until the wall-clock watchdog fires
// (inconclusive, never a verdict).
func (l *Lab) WaitConverged(maxRounds int64, watchdog time.Duration, checkFingers bool) Convergence {
	type base struct{ s, f, c int64 }
	bases := map[uint64]base{}
	snap := func() {
		for _, m := range l.Live() {
			if _, ok := bases[m.ID]; !ok {
				bases[m.ID] = base{l.Rounds("stab.done", m.ID), l.Rounds("fix.done", m.ID), l.Rounds("cp.done", m.ID)}
			}
		}
	}
	snap()
	deadline := time.Now().Add(watchdog)
	stable := 0
	for {
		d := l.PointerDiff(checkFingers)
		minR := int64(1 << 62)
		for _, m := range l.Live() {
			b, ok := bases[m.ID]
			if !ok {
				snap()
				b = bases[m.ID]
			}
			for _, r := range []int64{l.Rounds("stab.done", m.ID) - b.s, l.Rounds("fix.done", m.ID) - b.f} {
				if r < minR {
					minR = r
				}
			}
		}
		if d == "" {
			stable++
			if stable >= 2 {
				return Convergence{Converged: true, Rounds: minR}
			}
		} else {
			stable = 0
			if minR >= maxRounds {
				// re-read once more after the bound (pointer snapshot is not atomic across nodes)
				if d2 := l.PointerDiff(checkFingers); d2 != "" {
					return Convergence{Converged: false, Rounds: minR, Diff: d2}
				}
			}
		}
		if time.Now().After(deadline) {
			return Convergence{Converged: false, Rounds: minR, Diff: d, Watchdog: true}
		}
		time.Sleep(2 * time.Millisecond)
	}
}

// ---------------------------------------------------------------------------
// NetV proxies and faults

var ErrInjected = errors.New("netv: injected transport failure")

type FaultMode int

const (
	FailBefore   FaultMode = iota + 1 // the call is not delivered
	LoseResponse                      // the call is delivered, the caller sees an error
)

type Fault struct {
	Method string // e.g. "RequestToJoin", "FinishJoin", "Import", "RequestToLeave", "FinishLeave"
	Target uint64 // 0 = any
	// Match further restricts (e.g. FinishJoin(release=true)); nil = any
	Match func(args []any) bool
	Nth   int // 1 = first matching call, 2 = second ...
	Mode  FaultMode
	Err   error // default ErrInjected

	seen  int
	Fired bool
}

type FaultPlan struct {
	mu     sync.Mutex
	Faults []*Fault
	Log    []string
}

// Add registers a fault while proxies may already be consulting the plan.
func (p *FaultPlan) Add(f *Fault) {
	p.mu.Lock()
	p.Faults = append(p.Faults, f)
	p.mu.Unlock()
}

func (p *FaultPlan) consult(method string, target uint64, args []any) (FaultMode, error) {
	if p == nil {
		return 0, nil
	}
	p.mu.Lock()
	defer p.mu.Unlock()
	for _, f := range p.Faults {
		if f.Fired || f.Method != method || (f.Target != 0 && f.Target != target) {
			continue
		}
		if f.Match != nil && !f.Match(args) {
			continue
		}
		f.seen++
		if f.seen == f.Nth || (f.Nth == 0 && f.seen == 1) {
			f.Fired = true
			err := f.Err
			if err == nil {
				err = ErrInjected
			}
			p.Log = append(p.Log, fmt.Sprintf("%s->%d mode=%d", method, target, f.Mode))
			return f.Mode, err
		}
	}
	return 0, nil
}

type netVNode struct {
	lab    *Lab
	target uint64
	ident  *protocol.Node
}

var _ chord.VNode = (*netVNode)(nil)

func (p *netVNode) node() *rchord.LocalNode { return p.lab.Member(p.target).Node }

func (p *netVNode) wrap(v chord.VNode) chord.VNode {
	if v == nil {
		return nil
	}
	m := p.lab.Member(v.ID())
	if m == nil {
		return v
	}
	return &netVNode{lab: p.lab, target: m.ID, ident: m.Node.Identity()}
}

func (p *netVNode) wrapAll(vs []chord.VNode) []chord.VNode {
	out := make([]chord.VNode, 0, len(vs))
	for _, v := range vs {
		if v == nil {
			continue // the wire format drops nil entries
		}
		out = append(out, p.wrap(v))
	}
	return out
}

func (p *netVNode) call(method string, args ...any) (FaultMode, error) {
	counter(&p.lab.Calls, method).Add(1)
	return p.lab.Faults.consult(method, p.target, args)
}

func (p *netVNode) logCall(method string, subject uint64, h0 int, err error) {
	h := p.node().VerifStateHistory()
	p.lab.mcMu.Lock()
	p.lab.MCalls = append(p.lab.MCalls, MembershipCall{Method: method, Target: p.target, Subject: subject, H0: h0, H1: len(h), History: h, Err: err})
	p.lab.mcMu.Unlock()
}

func (p *netVNode) ID() uint64               { return p.target }
func (p *netVNode) Identity() *protocol.Node { return p.ident }

func (p *netVNode) Ping() error {
	if mode, err := p.call("Ping"); mode == FailBefore {
		return err
	} else if mode == LoseResponse {
		_ = p.node().Ping()
		return err
	}
	return p.node().Ping()
}

func (p *netVNode) Notify(pred chord.VNode) error {
	mode, ferr := p.call("Notify")
	if mode == FailBefore {
		return ferr
	}
	err := p.node().Notify(p.wrap(pred))
	if mode == LoseResponse {
		return ferr
	}
	return err
}

func (p *netVNode) FindSuccessor(key uint64) (chord.VNode, error) {
	mode, ferr := p.call("FindSuccessor")
	if mode == FailBefore {
		return nil, ferr
	}
	g := goid()
	p.lab.hopsMu.Lock()
	p.lab.hops[g]++
	h := p.lab.hops[g]
	p.lab.hopsMu.Unlock()
	for {
		cur := p.lab.MaxHops.Load()
		if int64(h) <= cur || p.lab.MaxHops.CompareAndSwap(cur, int64(h)) {
			break
		}
	}
	defer func() {
		p.lab.hopsMu.Lock()
		p.lab.hops[g]--
		if p.lab.hops[g] == 0 {
			delete(p.lab.hops, g)
		}
		p.lab.hopsMu.Unlock()
	}()
	if lim := p.lab.HopLimit.Load(); lim > 0 && int64(h) > lim {
		return nil, ErrHopLimit
	}
	v, err := p.node().FindSuccessor(key)
	if mode == LoseResponse {
		return nil, ferr
	}
	if err != nil {
		return nil, err
	}
	return p.wrap(v), nil
}

func (p *netVNode) GetSuccessors() ([]chord.VNode, error) {
	mode, ferr := p.call("GetSuccessors")
	if mode == FailBefore {
		return nil, ferr
	}
	vs, err := p.node().GetSuccessors()
	if mode == LoseResponse {
		return nil, ferr
	}
	if err != nil {
		return nil, err
	}
	return p.wrapAll(vs), nil
}

func (p *netVNode) GetPredecessor() (chord.VNode, error) {
	mode, ferr := p.call("GetPredecessor")
	if mode == FailBefore {
		return nil, ferr
	}
	v, err := p.node().GetPredecessor()
	if mode == LoseResponse {
		return nil, ferr
	}
	if err != nil {
		return nil, err
	}
	return p.wrap(v), nil
}

func (p *netVNode) RequestToJoin(joiner chord.VNode) (chord.VNode, []chord.VNode, error) {
	mode, ferr := p.call("RequestToJoin")
	if mode == FailBefore {
		return nil, nil, ferr
	}
	h0 := len(p.node().VerifStateHistory())
	pre, succs, err := p.node().RequestToJoin(p.wrap(joiner))
	p.logCall("RequestToJoin", joiner.ID(), h0, err)
	if mode == LoseResponse {
		return nil, nil, ferr
	}
	if err != nil {
		return nil, nil, err
	}
	return p.wrap(pre), p.wrapAll(succs), nil
}

func (p *netVNode) FinishJoin(stabilize bool, release bool) error {
	mode, ferr := p.call("FinishJoin", stabilize, release)
	if mode == FailBefore {
		return ferr
	}
	err := p.node().FinishJoin(stabilize, release)
	if mode == LoseResponse {
		return ferr
	}
	return err
}

func (p *netVNode) RequestToLeave(leaver chord.VNode) error {
	mode, ferr := p.call("RequestToLeave")
	if mode == FailBefore {
		return ferr
	}
	h0 := len(p.node().VerifStateHistory())
	err := p.node().RequestToLeave(p.wrap(leaver))
	p.logCall("RequestToLeave", leaver.ID(), h0, err)
	if mode == LoseResponse {
		return ferr
	}
	return err
}

func (p *netVNode) FinishLeave(stabilize bool, release bool) error {
	mode, ferr := p.call("FinishLeave", stabilize, release)
	if mode == FailBefore {
		return ferr
	}
	err := p.node().FinishLeave(stabilize, release)
	if mode == LoseResponse {
		return ferr
	}
	return err
}

// KVTimeout bounds every proxied KV call the way the real RPC client does
// (RemoteNode wraps each call in a context with a timeout): when it fires the
// caller sees context.DeadlineExceeded while the call itself keeps running on
// the target. Without it a KV request that a node forwards to its surrogate
// while holding its own read locks deadlocks against that surrogate's Leave
// (which holds the surrogate's lock and waits to import into the first node) —
// in production that cycle is broken by the RPC timeout, too.
var KVTimeout = time.Second

func timed[T any](l *Lab, fn func() (T, error)) (T, error) {
	type res struct {
		v   T
		err error
	}
	ch := make(chan res, 1)
	go func() {
		v, err := fn()
		ch <- res{v, err}
	}()
	t := time.NewTimer(KVTimeout)
	defer t.Stop()
	select {
	case r := <-ch:
		return r.v, r.err
	case <-t.C:
		counter(&l.Calls, "kv-timeouts").Add(1)
		var zero T
		return zero, context.DeadlineExceeded
	}
}

// KV: forwarded as the RPC server does (LocalNode methods; ownership is checked there)

func (p *netVNode) Put(ctx context.Context, key, value []byte) error {
	if mode, err := p.call("Put"); mode == FailBefore {
		return err
	} else if mode == LoseResponse {
		_ = p.node().Put(ctx, key, value)
		return err
	}
	_, err := timed(p.lab, func() (struct{}, error) { return struct{}{}, p.node().Put(ctx, key, value) })
	return err
}
func (p *netVNode) Get(ctx context.Context, key []byte) ([]byte, error) {
	if mode, err := p.call("Get"); mode != 0 {
		return nil, err
	}
	return timed(p.lab, func() ([]byte, error) { return p.node().Get(ctx, key) })
}
func (p *netVNode) Delete(ctx context.Context, key []byte) error {
	if mode, err := p.call("Delete"); mode == FailBefore {
		return err
	} else if mode == LoseResponse {
		_ = p.node().Delete(ctx, key)
		return err
	}
	_, err := timed(p.lab, func() (struct{}, error) { return struct{}{}, p.node().Delete(ctx, key) })
	return err
}
func (p *netVNode) PrefixAppend(ctx context.Context, prefix, child []byte) error {
	if mode, err := p.call("PrefixAppend"); mode == FailBefore {
		return err
	} else if mode == LoseResponse {
		_ = p.node().PrefixAppend(ctx, prefix, child)
		return err
	}
	_, err := timed(p.lab, func() (struct{}, error) { return struct{}{}, p.node().PrefixAppend(ctx, prefix, child) })
	return err
}
func (p *netVNode) PrefixList(ctx context.Context, prefix []byte) ([][]byte, error) {
	if mode, err := p.call("PrefixList"); mode != 0 {
		return nil, err
	}
	return timed(p.lab, func() ([][]byte, error) { return p.node().PrefixList(ctx, prefix) })
}
func (p *netVNode) PrefixContains(ctx context.Context, prefix, child []byte) (bool, error) {
	if mode, err := p.call("PrefixContains"); mode != 0 {
		return false, err
	}
	return timed(p.lab, func() (bool, error) { return p.node().PrefixContains(ctx, prefix, child) })
}
func (p *netVNode) PrefixRemove(ctx context.Context, prefix, child []byte) error {
	if mode, err := p.call("PrefixRemove"); mode == FailBefore {
		return err
	} else if mode == LoseResponse {
		_ = p.node().PrefixRemove(ctx, prefix, child)
		return err
	}
	_, err := timed(p.lab, func() (struct{}, error) { return struct{}{}, p.node().PrefixRemove(ctx, prefix, child) })
	return err
}
func (p *netVNode) Acquire(ctx context.Context, lease []byte, ttl time.Duration) (uint64, error) {
	if mode, err := p.call("Acquire"); mode != 0 {
		return 0, err
	}
	return timed(p.lab, func() (uint64, error) { return p.node().Acquire(ctx, lease, ttl) })
}
func (p *netVNode) Renew(ctx context.Context, lease []byte, ttl time.Duration, prev uint64) (uint64, error) {
	if mode, err := p.call("Renew"); mode != 0 {
		return 0, err
	}
	return timed(p.lab, func() (uint64, error) { return p.node().Renew(ctx, lease, ttl, prev) })
}
func (p *netVNode) Release(ctx context.Context, lease []byte, token uint64) error {
	if mode, err := p.call("Release"); mode != 0 {
		return err
	}
	_, err := timed(p.lab, func() (struct{}, error) { return struct{}{}, p.node().Release(ctx, lease, token) })
	return err
}
func (p *netVNode) Import(ctx context.Context, keys [][]byte, values []*protocol.KVTransfer) error {
	mode, ferr := p.call("Import")
	if mode == FailBefore {
		return ferr
	}
	err := p.node().Import(ctx, keys, values)
	if mode == LoseResponse {
		return ferr
	}
	return err
}
func (p *netVNode) ListKeys(ctx context.Context, prefix []byte) ([]*protocol.KeyComposite, error) {
	if mode, err := p.call("ListKeys"); mode != 0 {
		return nil, err
	}
	return timed(p.lab, func() ([]*protocol.KeyComposite, error) { return p.node().ListKeys(ctx, prefix) })
}

type predSample struct {
	id uint64
	ok bool
}

// PredRegression: the predecessor pointer of Node moved from Old to New although Old was still a
// live member and New is not between Old and Node.
type PredRegression struct {
	Succ           bool // the successor pointer (false: the predecessor pointer)
	Node, Old, New uint64
	OldState       string
	OldHistory     string
	Point          string
	T              int64 // microseconds on the lab clock
}

func (r PredRegression) String() string {
	if r.Succ {
		return fmt.Sprintf("[%d] at %s node %d's successor pointer went from %d (still %s) to %d, which is farther away", r.T, r.Point, r.Node, r.Old, r.OldState, r.New)
	}
	return fmt.Sprintf("[%d] at %s node %d's predecessor pointer went from %d (still %s) to %d, which is farther away", r.T, r.Point, r.Node, r.Old, r.OldState, r.New)
}

func (l *Lab) samplePred(point string, node uint64) {
	m := l.Member(node)
	if m == nil || m.Node == nil {
		return
	}
	// the pointer is read inside the monitor's own critical section: samples of one node are then
	// totally ordered in the order in which they were read (several task loops sample concurrently;
	// reading outside and storing inside lets an older reading overtake a newer one and look like
	// a regression)
	l.predMu.Lock()
	cur, ok := m.Node.VerifPredecessorID()
	scur, sok := m.Node.VerifSuccessorID()
	if l.lastPred == nil {
		l.lastPred = map[uint64]predSample{}
		l.lastSucc = map[uint64]predSample{}
	}
	prev, had := l.lastPred[node]
	l.lastPred[node] = predSample{cur, ok}
	sprev, shad := l.lastSucc[node]
	l.lastSucc[node] = predSample{scur, sok}
	l.predMu.Unlock()
	// the same rule for the successor pointer, mirrored: while the node it named has been live all
	// along, it may only move to a node strictly between this node and that one
	if shad && sprev.ok && sok && scur != sprev.id && scur != node && sprev.id != node {
		if old := l.Member(sprev.id); old != nil && liveAllAlong(old) && !chord.Between(node, scur, sprev.id, false) {
			l.predMu.Lock()
			l.PredRegression = append(l.PredRegression, PredRegression{Succ: true, Node: node, Old: sprev.id, New: scur, OldState: old.State().String(), OldHistory: fmt.Sprint(old.Node.VerifStateHistory()), Point: point, T: mono() / 1000})
			l.predMu.Unlock()
		}
	}
	if !had || !prev.ok || !ok || cur == prev.id || cur == node || prev.id == node {
		return
	}
	old := l.Member(prev.id)
	if old == nil {
		return
	}
	st := old.State()
	if st != chord.Active && st != chord.Transferring {
		return
	}
	// "still live" must mean "live all along": a node whose first join attempt failed after its
	// successor had already adopted it (Joining -> Inactive) and that joined again later is Active
	// now but was gone in between, and the pointer legitimately moved on meanwhile
	joins := 0
	for _, h := range old.Node.VerifStateHistory() {
		switch h {
		case chord.Joining:
			joins++
		case chord.Leaving, chord.Left:
			return
		}
	}
	if joins > 1 {
		return
	}
	if chord.Between(prev.id, cur, node, false) {
		return
	}
	l.predMu.Lock()
	l.PredRegression = append(l.PredRegression, PredRegression{Node: node, Old: prev.id, New: cur, OldState: st.String(), OldHistory: fmt.Sprint(old.Node.VerifStateHistory()), Point: point, T: mono() / 1000})
	l.predMu.Unlock()
}

func (l *Lab) PredRegressions() []PredRegression {
	l.predMu.Lock()
	defer l.predMu.Unlock()
	return append([]PredRegression{}, l.PredRegression...)
}

// liveAllAlong: a member now, and never gone in between (one join, no leave in its history).
func liveAllAlong(m *Member) bool {
	st := m.State()
	if st != chord.Active && st != chord.Transferring {
		return false
	}
	joins := 0
	for _, h := range m.Node.VerifStateHistory() {
		switch h {
		case chord.Joining:
			joins++
		case chord.Leaving, chord.Left:
			return false
		}
	}
	return joins <= 1
}
