package ringlab

import (
	"errors"
	"runtime"
	"strconv"
	"strings"
	"sync/atomic"
)

var ErrHopLimit = errors.New("netv: lookup exceeded the hop limit")

// HopLimit (0 = off) makes a proxy refuse a lookup nested deeper than the limit.
func (l *Lab) SetHopLimit(n int64) { l.HopLimit.Store(n) }

func runtimeGosched() { runtime.Gosched() }

func goid() int64 {
	var buf [64]byte
	n := runtime.Stack(buf[:], false)
	s := strings.TrimPrefix(string(buf[:n]), "goroutine ")
	if i := strings.IndexByte(s, ' '); i > 0 {
		v, _ := strconv.ParseInt(s[:i], 10, 64)
		return v
	}
	return -1
}

var _ atomic.Int64
