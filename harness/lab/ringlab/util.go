package ringlab

import (
	"errors"
	"runtime"
	"strconv"
	"strings"
	"sync/atomic"
)

var ErrHopLimit = errors.New("netv: lookup exceeded the hop limit")

// HopLimit (0 = off) makes a proxy refuse a lookup nested deeper than the limit.
func (l *Lab) SetHopLimit(n int64) { l.HopLimit.Store(n) }

func runtimeGosched() { runtime.Gosched() }

func goid() int64 {
	var buf [64]byte
	n := runtime.Stack(buf[:], false)
	s := strings.TrimPrefix(string(buf[:n]), "goroutine ")
	if i := strings.IndexByte(s, ' '); i > 0 {
		v, _ := strconv.ParseInt(s[:i], 10, 64)
		return v
	}
	return -1
}

var _ atomic.Int64

// SpawnShadow creates a node whose id duplicates an existing member's id without
// replacing that member in the lab's index (hook round counters are shared by id).
func (l *Lab) SpawnShadow(id uint64, be Backend) (*Member, error) {
	l.mu.Lock()
	old := l.members[id]
	l.mu.Unlock()
	m, err := l.Spawn(id, be)
	l.mu.Lock()
	if old != nil {
		l.members[id] = old
	}
	l.mu.Unlock()
	return m, err
}
