// Package tunclient wires a real tun/client.Client to a scripted TunnelService over an
// in-memory transport (used by C43, C44, C50). Nothing of the client is re-implemented:
// the client's own twirp client goes through rpc.DynamicTunnelClient -> Transport.DialStream
// -> HTTP -> protocol.NewTunnelServiceServer(fake).
package tunclient

import (
	"context"
	"fmt"
	"net"
	"net/http"
	"os"
	"sync"

	"go.miragespace.co/specter/spec/protocol"
	"go.miragespace.co/specter/spec/rpc"
	"go.miragespace.co/specter/spec/transport"
	"go.miragespace.co/specter/tun/client"
	"go.miragespace.co/specter/util/bufconn"

	"github.com/twitchtv/twirp"
	"go.uber.org/zap"
	"gopkg.in/yaml.v3"
)

// ---------------------------------------------------------------- transport

type listener struct {
	ch     chan net.Conn
	closed chan struct{}
	once   sync.Once
}

func (l *listener) Accept() (net.Conn, error) {
	select {
	case c := <-l.ch:
		return c, nil
	case <-l.closed:
		return nil, net.ErrClosed
	}
}
func (l *listener) Close() error   { l.once.Do(func() { close(l.closed) }); return nil }
func (l *listener) Addr() net.Addr { return &net.UnixAddr{Name: "tunclient", Net: "mem"} }

// Transport is the client's ServerTransport: every RPC stream dialled by the client ends at
// the HTTP server of the fake TunnelService.
type Transport struct {
	ln      *listener
	streams chan *transport.StreamDelegate
	Dials   int64
	Peers   []string // address of the node every RPC stream was dialled to
	mu      sync.Mutex
}

// TakePeers returns and clears the dial log.
func (t *Transport) TakePeers() []string {
	t.mu.Lock()
	defer t.mu.Unlock()
	p := t.Peers
	t.Peers = nil
	return p
}

var _ transport.Transport = (*Transport)(nil)

func (t *Transport) Identity() *protocol.Node { return &protocol.Node{Id: 4242, Address: "client"} }

func (t *Transport) DialStream(ctx context.Context, peer *protocol.Node, kind protocol.Stream_Type) (net.Conn, error) {
	if kind != protocol.Stream_RPC {
		return nil, fmt.Errorf("tunclient: unexpected stream kind %v", kind)
	}
	c1, c2 := bufconn.BufferedPipe(8192)
	t.mu.Lock()
	t.Dials++
	t.Peers = append(t.Peers, peer.GetAddress())
	t.mu.Unlock()
	select {
	case t.ln.ch <- c1:
	case <-t.ln.closed:
		return nil, net.ErrClosed
	case <-ctx.Done():
		return nil, ctx.Err()
	}
	return c2, nil
}

func (t *Transport) AcceptStream() <-chan *transport.StreamDelegate { return t.streams }
func (t *Transport) ListConnected() []transport.ConnectedPeer       { return nil }
func (t *Transport) SupportDatagram() bool                          { return false }
func (t *Transport) ReceiveDatagram() <-chan *transport.DatagramDelegate {
	return make(chan *transport.DatagramDelegate)
}
func (t *Transport) SendDatagram(*protocol.Node, []byte) error { return fmt.Errorf("no datagrams") }

// ---------------------------------------------------------------- fake service

// Service is a scripted TunnelService. It behaves like a well-behaved server: hostnames
// it generates are fresh and become registered.
type Service struct {
	mu         sync.Mutex
	Registered []string
	Prefix     string
	gen        int
	Generated  []string
	Published  []string
	Servers    [][]string // addresses in the Servers field of every PublishTunnel request
	Calls      []string
	// GenFail, if set, decides whether the n-th (1-based, since the last ResetLog)
	// GenerateHostname call fails; a failed call registers and returns nothing.
	GenFail   func(n int) bool
	genCalls  int
	GenFailed int
}

// SetGenFail installs the GenerateHostname failure script.
func (s *Service) SetGenFail(f func(n int) bool) {
	s.mu.Lock()
	s.GenFail = f
	s.mu.Unlock()
}

// Failed returns how many GenerateHostname calls failed since the last ResetLog.
func (s *Service) Failed() int {
	s.mu.Lock()
	defer s.mu.Unlock()
	return s.GenFailed
}

// TakeServers returns and clears the PublishTunnel server lists.
func (s *Service) TakeServers() [][]string {
	s.mu.Lock()
	defer s.mu.Unlock()
	v := s.Servers
	s.Servers = nil
	return v
}

func (s *Service) log(c string) { s.Calls = append(s.Calls, c) }

// Snapshot returns copies of the call log state.
func (s *Service) Snapshot() (registered, generated, published, calls []string) {
	s.mu.Lock()
	defer s.mu.Unlock()
	return append([]string(nil), s.Registered...), append([]string(nil), s.Generated...), append([]string(nil), s.Published...), append([]string(nil), s.Calls...)
}

// ResetLog clears the per-sync logs (the registered set stays).
func (s *Service) ResetLog() {
	s.mu.Lock()
	s.Generated, s.Published, s.Calls, s.Servers = nil, nil, nil, nil
	s.genCalls, s.GenFailed = 0, 0
	s.mu.Unlock()
}

func (s *Service) SetRegistered(r []string) {
	s.mu.Lock()
	s.Registered = append([]string(nil), r...)
	s.mu.Unlock()
}

func (s *Service) Ping(context.Context, *protocol.ClientPingRequest) (*protocol.ClientPingResponse, error) {
	return &protocol.ClientPingResponse{Node: &protocol.Node{Id: 1, Address: "gw-1"}, Apex: "example.test"}, nil
}
func (s *Service) RegisterIdentity(context.Context, *protocol.RegisterIdentityRequest) (*protocol.RegisterIdentityResponse, error) {
	return nil, twirp.NewError(twirp.Unimplemented, "not scripted")
}
func (s *Service) GetNodes(context.Context, *protocol.GetNodesRequest) (*protocol.GetNodesResponse, error) {
	return &protocol.GetNodesResponse{}, nil
}
func (s *Service) GenerateHostname(context.Context, *protocol.GenerateHostnameRequest) (*protocol.GenerateHostnameResponse, error) {
	s.mu.Lock()
	defer s.mu.Unlock()
	s.genCalls++
	if s.GenFail != nil && s.GenFail(s.genCalls) {
		s.GenFailed++
		s.log("GenerateHostname->error")
		return nil, twirp.NewError(twirp.ResourceExhausted, "hostname quota exceeded")
	}
	s.gen++
	h := fmt.Sprintf("%s%d", s.Prefix, s.gen)
	s.Generated = append(s.Generated, h)
	s.Registered = append(s.Registered, h)
	s.log("GenerateHostname->" + h)
	return &protocol.GenerateHostnameResponse{Hostname: h}, nil
}
func (s *Service) RegisteredHostnames(context.Context, *protocol.RegisteredHostnamesRequest) (*protocol.RegisteredHostnamesResponse, error) {
	s.mu.Lock()
	defer s.mu.Unlock()
	s.log("RegisteredHostnames")
	return &protocol.RegisteredHostnamesResponse{Hostnames: append([]string(nil), s.Registered...)}, nil
}
func (s *Service) PublishTunnel(_ context.Context, req *protocol.PublishTunnelRequest) (*protocol.PublishTunnelResponse, error) {
	s.mu.Lock()
	defer s.mu.Unlock()
	s.Published = append(s.Published, req.GetHostname())
	var addrs []string
	for _, n := range req.GetServers() {
		addrs = append(addrs, n.GetAddress())
	}
	s.Servers = append(s.Servers, addrs)
	s.log("PublishTunnel(" + req.GetHostname() + ")")
	return &protocol.PublishTunnelResponse{Published: req.GetServers()}, nil
}
func (s *Service) UnpublishTunnel(context.Context, *protocol.UnpublishTunnelRequest) (*protocol.UnpublishTunnelResponse, error) {
	return &protocol.UnpublishTunnelResponse{}, nil
}
func (s *Service) ReleaseTunnel(context.Context, *protocol.ReleaseTunnelRequest) (*protocol.ReleaseTunnelResponse, error) {
	return &protocol.ReleaseTunnelResponse{}, nil
}
func (s *Service) AcmeInstruction(context.Context, *protocol.InstructionRequest) (*protocol.InstructionResponse, error) {
	return nil, twirp.NewError(twirp.Unimplemented, "not scripted")
}
func (s *Service) AcmeValidate(context.Context, *protocol.ValidateRequest) (*protocol.ValidateResponse, error) {
	return nil, twirp.NewError(twirp.Unimplemented, "not scripted")
}

// ---------------------------------------------------------------- wiring

type Rig struct {
	Client    *client.Client
	Service   *Service
	Transport *Transport
	Path      string
	srv       *http.Server
	cancel    context.CancelFunc
	Ctx       context.Context
}

// WriteConfig writes a version-2 client configuration without certificate.
func WriteConfig(path string, tunnels []client.Tunnel) error {
	cfg := &client.Config{Version: 2, Apex: "example.test:443", Tunnels: tunnels}
	b, err := yaml.Marshal(cfg)
	if err != nil {
		return err
	}
	return os.WriteFile(path, b, 0o644)
}

// New builds a real client over the config file at path (which must exist) and connects it
// to svc. The client has one connected gateway node unless nodes are given.
func New(path string, svc *Service, reload <-chan os.Signal, cc func(*client.ClientConfig)) (*Rig, error) {
	ctx, cancel := context.WithCancel(context.Background())
	tr := &Transport{ln: &listener{ch: make(chan net.Conn, 64), closed: make(chan struct{})}, streams: make(chan *transport.StreamDelegate)}
	srv := &http.Server{Handler: protocol.NewTunnelServiceServer(svc)}
	go srv.Serve(tr.ln)
	cfg, err := client.NewConfig(path)
	if err != nil {
		cancel()
		srv.Close()
		return nil, err
	}
	ccfg := client.ClientConfig{
		Logger:          zap.NewNop(),
		Configuration:   cfg,
		ServerTransport: tr,
		ReloadSignal:    reload,
	}
	if cc != nil {
		cc(&ccfg)
	}
	c, err := client.NewClient(rpc.DisablePooling(ctx), ccfg)
	if err != nil {
		cancel()
		srv.Close()
		return nil, err
	}
	c.VerifSetConnected([]*protocol.Node{{Id: 1, Address: "gw-1"}})
	return &Rig{Client: c, Service: svc, Transport: tr, Path: path, srv: srv, cancel: cancel, Ctx: ctx}, nil
}

func (r *Rig) Close() {
	r.Client.Close()
	r.cancel()
	r.srv.Close()
	r.Transport.ln.Close()
}
