package tunlab

import (
	"context"
	"crypto/ed25519"
	"crypto/rand"
	"crypto/sha256"
	"crypto/tls"
	"crypto/x509"
	"crypto/x509/pkix"
	"math/big"
	"net"
	"time"

	"go.miragespace.co/specter/spec/pki"
	"go.miragespace.co/specter/spec/protocol"
	"go.miragespace.co/specter/spec/rpc"
	"go.miragespace.co/specter/spec/transport"

	"go.uber.org/zap"
)

// NewCA makes a self-signed ed25519 certificate authority.
func NewCA() tls.Certificate {
	pub, priv, err := ed25519.GenerateKey(rand.Reader)
	if err != nil {
		panic(err)
	}
	tmpl := x509.Certificate{
		SerialNumber:          big.NewInt(1),
		Subject:               pkix.Name{Organization: []string{"tunlab"}},
		NotBefore:             time.Now().Add(-time.Hour),
		NotAfter:              time.Now().Add(24 * time.Hour),
		KeyUsage:              x509.KeyUsageCertSign | x509.KeyUsageDigitalSignature,
		BasicConstraintsValid: true,
		IsCA:                  true,
	}
	der, err := x509.CreateCertificate(rand.Reader, &tmpl, &tmpl, pub, priv)
	if err != nil {
		panic(err)
	}
	return tls.Certificate{Certificate: [][]byte{der}, PrivateKey: priv}
}

// Client is a tunnel client as the server sees it: a verified certificate.
type Client struct {
	Name  string
	Key   ed25519.PrivateKey
	Cert  *x509.Certificate
	ID    uint64
	Token []byte         // the token the server derives from the certificate
	Node  *protocol.Node // the identity the server derives from the certificate
}

// NewClient issues a certificate through spec/pki (v2 subject by default, v1
// with the given legacy token when v1Token != "").
func NewClient(ca tls.Certificate, name string, id uint64, v1Token string) *Client {
	pub, priv, err := ed25519.GenerateKey(rand.Reader)
	if err != nil {
		panic(err)
	}
	var subj pkix.Name
	if v1Token != "" {
		subj = pki.MakeSubjectV1(id, v1Token)
	} else {
		h := sha256.Sum256(pub)
		subj = pki.MakeSubjectV2(id, h[:])
	}
	der, err := pki.GenerateCertificate(zap.NewNop(), ca, pki.IdentityRequest{Subject: subj, PublicKey: pub})
	if err != nil {
		panic(err)
	}
	cert, err := x509.ParseCertificate(der)
	if err != nil {
		panic(err)
	}
	ident, err := pki.ExtractCertificateIdentity(cert)
	if err != nil {
		panic(err)
	}
	return &Client{Name: name, Key: priv, Cert: cert, ID: id, Token: ident.Token, Node: ident.NodeIdentity()}
}

func (c *Client) ClientToken() *protocol.ClientToken { return &protocol.ClientToken{Token: c.Token} }

// Delegate builds the delegation a transport would hand to the server for a
// stream of this client. claimed is the identity the peer *claims* (may be a lie).
func (c *Client) Delegate(conn net.Conn, claimed *protocol.Node) *transport.StreamDelegate {
	if claimed == nil {
		claimed = c.Node
	}
	return &transport.StreamDelegate{Conn: conn, Certificate: c.Cert, Identity: claimed, Kind: protocol.Stream_RPC}
}

// Ctx is a handler-level context carrying this client's delegation.
func (c *Client) Ctx(ctx context.Context, n int) context.Context {
	return rpc.WithDelegation(ctx, c.Delegate(&DeadConn{Local: SeqAddr(0), Remote: SeqAddr(n)}, nil))
}

// BareDelegationCtx carries a delegation without certificate.
func BareDelegationCtx(ctx context.Context, claimed *protocol.Node, n int) context.Context {
	return rpc.WithDelegation(ctx, &transport.StreamDelegate{
		Conn: &DeadConn{Local: SeqAddr(0), Remote: SeqAddr(n)}, Identity: claimed, Kind: protocol.Stream_RPC,
	})
}

// DelegationCtx attaches an arbitrary delegation the way the RPC listener does.
func DelegationCtx(ctx context.Context, d *transport.StreamDelegate) context.Context {
	return rpc.WithDelegation(ctx, d)
}

// NewClientWithSubject issues a CA-signed client certificate with an arbitrary
// subject (e.g. one that is not a specter identity).
func NewClientWithSubject(ca tls.Certificate, subj pkix.Name) *x509.Certificate {
	pub, _, err := ed25519.GenerateKey(rand.Reader)
	if err != nil {
		panic(err)
	}
	der, err := pki.GenerateCertificate(zap.NewNop(), ca, pki.IdentityRequest{Subject: subj, PublicKey: pub})
	if err != nil {
		panic(err)
	}
	cert, err := x509.ParseCertificate(der)
	if err != nil {
		panic(err)
	}
	return cert
}
