package tunlab

import (
	"context"
	"crypto/tls"
	"fmt"
	"net"
	"strings"
	"sync"
	"time"

	"go.miragespace.co/specter/spec/chord"
	"go.miragespace.co/specter/spec/cipher"
	"go.miragespace.co/specter/spec/protocol"
	"go.miragespace.co/specter/spec/transport"
	"go.miragespace.co/specter/tun/server"
	"go.miragespace.co/specter/util/bufconn"

	"go.uber.org/zap"
)

const (
	Apex = "tunlab-apex.test"
	Acme = "acme.tunlab-zone.test"
)

// Resolver is a scripted tun.DNSResolver that records its lookups. Like the
// DNS it matches names case-insensitively.
type Resolver struct {
	mu      sync.Mutex
	answers map[string]string
	errs    map[string]error
	Lookups []string
}

func NewResolver() *Resolver {
	return &Resolver{answers: map[string]string{}, errs: map[string]error{}}
}

func (r *Resolver) Set(name, cname string) {
	name = strings.ToLower(name)
	r.mu.Lock()
	r.answers[name] = cname
	delete(r.errs, name)
	r.mu.Unlock()
}
func (r *Resolver) SetErr(name string, err error) {
	name = strings.ToLower(name)
	r.mu.Lock()
	r.errs[name] = err
	delete(r.answers, name)
	r.mu.Unlock()
}
func (r *Resolver) Clear(name string) {
	name = strings.ToLower(name)
	r.mu.Lock()
	delete(r.errs, name)
	delete(r.answers, name)
	r.mu.Unlock()
}
func (r *Resolver) LookupCNAME(_ context.Context, host string) (string, error) {
	r.mu.Lock()
	defer r.mu.Unlock()
	r.Lookups = append(r.Lookups, host)
	host = strings.ToLower(host)
	if e, ok := r.errs[host]; ok {
		return "", e
	}
	if a, ok := r.answers[host]; ok {
		return a, nil
	}
	return "", fmt.Errorf("tunlab resolver: NXDOMAIN %s", host)
}
func (r *Resolver) Count() int { r.mu.Lock(); defer r.mu.Unlock(); return len(r.Lookups) }

// CertProvider is a scripted cipher.CertProvider that records requested names.
type CertProvider struct {
	mu    sync.Mutex
	Fn    func(sni string) (*tls.Certificate, error)
	Asked []string
}

var _ cipher.CertProvider = (*CertProvider)(nil)

func (c *CertProvider) Initialize(context.Context) error   { return nil }
func (c *CertProvider) OnHandshake(cipher.OnHandshakeFunc) {}
func (c *CertProvider) GetCertificate(chi *tls.ClientHelloInfo) (*tls.Certificate, error) {
	return c.GetCertificateWithContext(context.Background(), chi)
}
func (c *CertProvider) GetCertificateWithContext(_ context.Context, chi *tls.ClientHelloInfo) (*tls.Certificate, error) {
	c.mu.Lock()
	c.Asked = append(c.Asked, chi.ServerName)
	fn := c.Fn
	c.mu.Unlock()
	if fn == nil {
		return nil, fmt.Errorf("tunlab cert provider: no certificate for %s", chi.ServerName)
	}
	return fn(chi.ServerName)
}
func (c *CertProvider) AskedCount() int { c.mu.Lock(); defer c.mu.Unlock(); return len(c.Asked) }

// Lab is a tun/server.Server wired to fakes (and, optionally, a real ring).
type Lab struct {
	Server   *server.Server
	Ring     *Ring // nil when a scripted VNode is used
	Script   *ScriptVNode
	Tunnel   *FakeTransport
	Chord    *FakeTransport
	Resolver *Resolver
	Certs    *CertProvider
	Dials    *CallLog
	cancel   context.CancelFunc
	Ctx      context.Context
}

type Options struct {
	// Script, if set, is used as the server's chord.VNode instead of a real ring.
	Script *ScriptVNode
	// TunnelIdent / ChordIdent default to fixed identities.
	TunnelIdent, ChordIdent *protocol.Node
	// Retry wraps the VNode in chord.WrapRetryKV like the production wiring does.
	Retry bool
	// EmptyNonNil: the ring's storage answers absent keys with []byte{} instead of nil.
	EmptyNonNil bool
}

func DefaultTunnelIdent() *protocol.Node {
	return &protocol.Node{Id: chord.Hash([]byte("tunlab-tunnel")), Address: "tunnel-self:2"}
}
func DefaultChordIdent() *protocol.Node {
	return &protocol.Node{Id: chord.Hash([]byte("tunlab-ring")), Address: "chord-self:1"}
}

// NewLab builds the server. Close it when done.
func NewLab(o Options) (*Lab, error) {
	l := &Lab{Resolver: NewResolver(), Certs: &CertProvider{}, Dials: &CallLog{}}
	if o.TunnelIdent == nil {
		o.TunnelIdent = DefaultTunnelIdent()
	}
	if o.ChordIdent == nil {
		o.ChordIdent = DefaultChordIdent()
	}
	l.Tunnel = &FakeTransport{Ident: o.TunnelIdent, Name: "tunnel", Log: l.Dials}
	l.Chord = &FakeTransport{Ident: o.ChordIdent, Name: "chord", Log: l.Dials}
	l.Tunnel.InitAccept()
	l.Chord.InitAccept()
	var vn chord.VNode
	if o.Script != nil {
		l.Script = o.Script
		vn = o.Script
	} else {
		r, err := NewRing(o.ChordIdent)
		if err != nil {
			return nil, err
		}
		r.KV.EmptyNonNil = o.EmptyNonNil
		l.Ring = r
		vn = r.Node
	}
	if o.Retry {
		vn = chord.WrapRetryKV(vn, 2*time.Millisecond, 3)
	}
	l.Ctx, l.cancel = context.WithCancel(context.Background())
	l.Server = server.New(server.Config{
		Logger:          zap.NewNop(),
		ParentContext:   l.Ctx,
		Chord:           vn,
		TunnelTransport: l.Tunnel,
		ChordTransport:  l.Chord,
		Resolver:        l.Resolver,
		CertProvider:    l.Certs,
		Apex:            Apex,
		Acme:            Acme,
	})
	return l, nil
}

// Close stops the server's caches and leaves the ring.
func (l *Lab) Close() {
	l.cancel()
	l.Server.Stop()
	if l.Ring != nil {
		l.Ring.Close()
	}
}

// Attach mounts the server's stream handlers (proxy, direct, RPC) on a real
// transport.StreamRouter fed by the lab's fake transports: delegates given to
// Chord.Feed / Tunnel.Feed are handled by the real handlers.
func (l *Lab) Attach() {
	router := transport.NewStreamRouter(zap.NewNop(), l.Chord, l.Tunnel)
	router.Accept(l.Ctx)
	l.Server.AttachRouter(l.Ctx, router)
}

// Pipe returns the two ends of an in-memory buffered connection.
func Pipe() (net.Conn, net.Conn) { return bufconn.BufferedPipe(16384) }
