package tunlab

import (
	"crypto/ed25519"
	"sync"
	"time"

	"go.miragespace.co/specter/spec/acme"
	"go.miragespace.co/specter/spec/pow"
	"go.miragespace.co/specter/spec/protocol"
	"go.miragespace.co/specter/util/hashcash"
)

// Proof is a proof of work plus the instant before its generation started.
// A valid proof is accepted by the server until its ExpiresAt, which is at
// least 9 s after Made (10 s truncated to the second).
type Proof struct {
	P    *protocol.ProofOfWork
	Made time.Time
}

// SafeWindow is the fraction of the >= 9 s acceptance window inside which a
// verdict may depend on the proof having been valid.
const SafeWindow = 4 * time.Second

// Fresh reports whether a verdict observed *now* can rely on the proof having
// been inside its acceptance window when the server looked at it.
func (p Proof) Fresh() bool { return time.Since(p.Made) < SafeWindow }

// SolveAcme produces a valid proof for subject at the production parameters
// of the ACME / keyless RPCs (difficulty 18, 10 s).
func SolveAcme(key ed25519.PrivateKey, subject string) (Proof, error) {
	made := time.Now()
	p, err := pow.GenerateSolution(key, pow.Parameters{
		Difficulty: acme.HashcashDifficulty,
		Expires:    acme.HashcashExpires,
		GetSubject: func(ed25519.PublicKey) string { return subject },
	})
	return Proof{P: p, Made: made}, err
}

// SolveCustom solves a stamp with arbitrary difficulty / expiry (for proofs
// the server must refuse) and signs it with key.
func SolveCustom(key ed25519.PrivateKey, subject string, difficulty int, expiresAt time.Time) (Proof, error) {
	made := time.Now()
	hc := hashcash.New(hashcash.Hashcash{Subject: subject, Difficulty: difficulty, ExpiresAt: expiresAt})
	if err := hc.Solve(difficulty); err != nil {
		return Proof{}, err
	}
	sig := ed25519.Sign(key, []byte(hc.String()))
	return Proof{P: &protocol.ProofOfWork{PubKey: key.Public().(ed25519.PublicKey), Signature: sig, Solution: hc.String()}, Made: made}, nil
}

// Parallel runs fn(i) for i in [0,n) on `workers` goroutines.
func Parallel(n, workers int, fn func(i int)) {
	ParallelW(n, workers, func(_, i int) { fn(i) })
}

// ParallelW is Parallel with the worker index (for worker-local fixtures).
func ParallelW(n, workers int, fn func(w, i int)) {
	if workers < 1 {
		workers = 1
	}
	var wg sync.WaitGroup
	ch := make(chan int)
	for w := 0; w < workers; w++ {
		wg.Add(1)
		go func(w int) {
			defer wg.Done()
			for i := range ch {
				fn(w, i)
			}
		}(w)
	}
	for i := 0; i < n; i++ {
		ch <- i
	}
	close(ch)
	wg.Wait()
}
