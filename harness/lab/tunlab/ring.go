// Package tunlab holds what the tunnel-server checks (C25-C30, C51) share: a
// real single-node chord ring over a recording memory KV, a scripted
// chord.VNode, scripted transports, client certificates / delegations and
// proof-of-work helpers.
package tunlab

import (
	"context"
	"fmt"
	"sort"
	"sync"
	"time"

	chordimpl "go.miragespace.co/specter/chord"
	"go.miragespace.co/specter/kv/memory"
	"go.miragespace.co/specter/spec/chord"
	"go.miragespace.co/specter/spec/protocol"
	"go.miragespace.co/specter/spec/rtt"

	"go.uber.org/zap"
)

// ---------------------------------------------------------------- recording KV

// KVEvent is one call that reached the storage of the ring.
type KVEvent struct {
	Seq int    `json:"seq"`
	Op  string `json:"op"`
	Key string `json:"key"`
	Arg string `json:"arg,omitempty"`
	Err string `json:"err,omitempty"`
	Mut bool   `json:"mutation"`
}

// RecKV records every call made to the wrapped KVProvider.
type RecKV struct {
	chord.KVProvider
	// EmptyNonNil makes Get answer an absent key with a zero-length, non-nil
	// slice instead of nil. Both mean "absent" under the KV contract (callers
	// test len(value) == 0); stores that copy values or keep empty blobs answer
	// this way.
	EmptyNonNil bool
	mu          sync.Mutex
	log         []KVEvent
	before      func(op, key string)
}

// SetBefore installs (or clears, with nil) a callback that runs before a lease acquisition is
// passed to the wrapped store: a place to perturb the schedule of concurrent requests exactly
// where they serialise.
func (k *RecKV) SetBefore(f func(op, key string)) { k.mu.Lock(); k.before = f; k.mu.Unlock() }

func NewRecKV(inner chord.KVProvider) *RecKV { return &RecKV{KVProvider: inner} }

func (k *RecKV) rec(op, key, arg string, mut bool, err error) {
	e := KVEvent{Op: op, Key: key, Arg: arg, Mut: mut}
	if err != nil {
		e.Err = err.Error()
	}
	k.mu.Lock()
	e.Seq = len(k.log)
	k.log = append(k.log, e)
	k.mu.Unlock()
}

// Mark returns the current length of the call log.
func (k *RecKV) Mark() int { k.mu.Lock(); defer k.mu.Unlock(); return len(k.log) }

// Since returns the calls recorded after mark.
func (k *RecKV) Since(mark int) []KVEvent {
	k.mu.Lock()
	defer k.mu.Unlock()
	return append([]KVEvent(nil), k.log[mark:]...)
}

// MutationsSince returns the mutating calls recorded after mark.
func (k *RecKV) MutationsSince(mark int) []KVEvent {
	var out []KVEvent
	for _, e := range k.Since(mark) {
		if e.Mut {
			out = append(out, e)
		}
	}
	return out
}

func (k *RecKV) Put(ctx context.Context, key, value []byte) error {
	err := k.KVProvider.Put(ctx, key, value)
	k.rec("Put", string(key), fmt.Sprintf("%dB", len(value)), true, err)
	return err
}
func (k *RecKV) Get(ctx context.Context, key []byte) ([]byte, error) {
	v, err := k.KVProvider.Get(ctx, key)
	k.rec("Get", string(key), "", false, err)
	if k.EmptyNonNil && err == nil && len(v) == 0 {
		v = []byte{}
	}
	return v, err
}
func (k *RecKV) Delete(ctx context.Context, key []byte) error {
	err := k.KVProvider.Delete(ctx, key)
	k.rec("Delete", string(key), "", true, err)
	return err
}
func (k *RecKV) PrefixAppend(ctx context.Context, prefix, child []byte) error {
	err := k.KVProvider.PrefixAppend(ctx, prefix, child)
	k.rec("PrefixAppend", string(prefix), string(child), true, err)
	return err
}
func (k *RecKV) PrefixList(ctx context.Context, prefix []byte) ([][]byte, error) {
	v, err := k.KVProvider.PrefixList(ctx, prefix)
	k.rec("PrefixList", string(prefix), "", false, err)
	return v, err
}
func (k *RecKV) PrefixContains(ctx context.Context, prefix, child []byte) (bool, error) {
	v, err := k.KVProvider.PrefixContains(ctx, prefix, child)
	k.rec("PrefixContains", string(prefix), string(child), false, err)
	return v, err
}
func (k *RecKV) PrefixRemove(ctx context.Context, prefix, child []byte) error {
	err := k.KVProvider.PrefixRemove(ctx, prefix, child)
	k.rec("PrefixRemove", string(prefix), string(child), true, err)
	return err
}
func (k *RecKV) Acquire(ctx context.Context, lease []byte, ttl time.Duration) (uint64, error) {
	k.mu.Lock()
	bf := k.before
	k.mu.Unlock()
	if bf != nil {
		bf("Acquire", string(lease))
	}
	v, err := k.KVProvider.Acquire(ctx, lease, ttl)
	k.rec("Acquire", string(lease), ttl.String(), true, err)
	return v, err
}
func (k *RecKV) Renew(ctx context.Context, lease []byte, ttl time.Duration, prev uint64) (uint64, error) {
	v, err := k.KVProvider.Renew(ctx, lease, ttl, prev)
	k.rec("Renew", string(lease), ttl.String(), true, err)
	return v, err
}
func (k *RecKV) Release(ctx context.Context, lease []byte, token uint64) error {
	err := k.KVProvider.Release(ctx, lease, token)
	k.rec("Release", string(lease), "", true, err)
	return err
}
func (k *RecKV) Import(ctx context.Context, keys [][]byte, values []*protocol.KVTransfer) error {
	err := k.KVProvider.Import(ctx, keys, values)
	k.rec("Import", fmt.Sprintf("%d keys", len(keys)), "", true, err)
	return err
}
func (k *RecKV) RemoveKeys(ctx context.Context, keys [][]byte) error {
	err := k.KVProvider.RemoveKeys(ctx, keys)
	k.rec("RemoveKeys", fmt.Sprintf("%d keys", len(keys)), "", true, err)
	return err
}

// Entry is the visible content stored under one key.
type Entry struct {
	Simple   []byte   `json:"simple,omitempty"`
	Children []string `json:"children,omitempty"`
	Lease    bool     `json:"lease,omitempty"`
}

// Dump reads the complete content of the store (unrecorded).
func (k *RecKV) Dump() (map[string]Entry, error) {
	ctx := context.Background()
	keys, err := k.KVProvider.ListKeys(ctx, nil)
	if err != nil {
		return nil, err
	}
	out := map[string]Entry{}
	for _, kc := range keys {
		key := string(kc.GetKey())
		e := out[key]
		switch kc.GetType() {
		case protocol.KeyComposite_SIMPLE:
			v, err := k.KVProvider.Get(ctx, kc.GetKey())
			if err != nil {
				return nil, err
			}
			e.Simple = v
		case protocol.KeyComposite_PREFIX:
			ch, err := k.KVProvider.PrefixList(ctx, kc.GetKey())
			if err != nil {
				return nil, err
			}
			for _, c := range ch {
				e.Children = append(e.Children, string(c))
			}
			sort.Strings(e.Children)
		case protocol.KeyComposite_LEASE:
			e.Lease = true
		}
		out[key] = e
	}
	return out, nil
}

// ---------------------------------------------------------------- real ring

type nopRTT struct{}

func (nopRTT) Snapshot(string, time.Duration) *rtt.Statistics { return &rtt.Statistics{} }
func (nopRTT) RecordLatency(string, float64)                  {}
func (nopRTT) RecordSent(string)                              {}
func (nopRTT) RecordLost(string)                              {}
func (nopRTT) Drop(string)                                    {}

// noChordClient satisfies rpc.ChordClient; a single-node ring never dials out,
// so any use is a nil-interface panic that the worker would report.
type noChordClient struct {
	protocol.VNodeService
	protocol.KVService
}

func (noChordClient) RatePer(time.Duration) float64 { return 0 }

// Ring is a real one-node chord ring whose storage is a recording memory KV.
type Ring struct {
	Node *chordimpl.LocalNode
	KV   *RecKV
}

// NewRing creates the ring (chord.NewLocalNode + Create) with millisecond
// maintenance intervals.
func NewRing(chordIdentity *protocol.Node) (*Ring, error) {
	if chordIdentity == nil {
		chordIdentity = &protocol.Node{Id: chord.Hash([]byte("tunlab-ring")), Address: "chord-self:1"}
	}
	kv := NewRecKV(memory.WithHashFn(chord.Hash))
	n := chordimpl.NewLocalNode(chordimpl.NodeConfig{
		BaseLogger:               zap.NewNop(),
		ChordClient:              noChordClient{},
		Identity:                 chordIdentity,
		KVProvider:               kv,
		StabilizeInterval:        3 * time.Millisecond,
		FixFingerInterval:        5 * time.Millisecond,
		PredecessorCheckInterval: 7 * time.Millisecond,
		NodesRTT:                 nopRTT{},
	})
	if err := n.Create(); err != nil {
		return nil, err
	}
	return &Ring{Node: n, KV: kv}, nil
}

// Close leaves the ring (stops the maintenance goroutines).
func (r *Ring) Close() { r.Node.Leave() }
