package tunlab

import (
	"context"
	"errors"
	"fmt"
	"net"
	"sync"
	"time"

	"go.miragespace.co/specter/spec/chord"
	"go.miragespace.co/specter/spec/protocol"
	"go.miragespace.co/specter/spec/transport"
)

// ---------------------------------------------------------------- scripted VNode

// Call is one recorded call on a scripted object.
type Call struct {
	Seq  int    `json:"seq"`
	Op   string `json:"op"`
	Arg  string `json:"arg,omitempty"`
	Kind string `json:"kind,omitempty"`
	Res  string `json:"res,omitempty"`
}

var ErrUnscripted = errors.New("tunlab: call not scripted")

// ScriptVNode is a chord.VNode whose KV reads and successor list come from
// functions supplied by the case. Every call is recorded.
type ScriptVNode struct {
	Ident *protocol.Node
	// GetFn decides Get; nil = ErrUnscripted.
	GetFn func(ctx context.Context, key string) ([]byte, error)
	// SuccFn decides GetSuccessors; nil = ErrUnscripted.
	SuccFn func() ([]chord.VNode, error)

	mu    sync.Mutex
	calls []Call
}

var _ chord.VNode = (*ScriptVNode)(nil)

func (n *ScriptVNode) rec(op, arg, res string) {
	n.mu.Lock()
	n.calls = append(n.calls, Call{Seq: len(n.calls), Op: op, Arg: arg, Res: res})
	n.mu.Unlock()
}

// Reset re-programs the node for the next case (identity, no scripts, empty log).
func (n *ScriptVNode) Reset(ident *protocol.Node) {
	n.mu.Lock()
	n.Ident, n.GetFn, n.SuccFn, n.calls = ident, nil, nil, nil
	n.mu.Unlock()
}

func (n *ScriptVNode) Calls() []Call {
	n.mu.Lock()
	defer n.mu.Unlock()
	return append([]Call(nil), n.calls...)
}

func (n *ScriptVNode) ID() uint64               { return n.Ident.GetId() }
func (n *ScriptVNode) Identity() *protocol.Node { return n.Ident }
func (n *ScriptVNode) Ping() error              { n.rec("Ping", "", ""); return nil }
func (n *ScriptVNode) Notify(chord.VNode) error { n.rec("Notify", "", ""); return ErrUnscripted }
func (n *ScriptVNode) FindSuccessor(uint64) (chord.VNode, error) {
	n.rec("FindSuccessor", "", "")
	return n, nil
}
func (n *ScriptVNode) GetSuccessors() ([]chord.VNode, error) {
	if n.SuccFn == nil {
		n.rec("GetSuccessors", "", "unscripted")
		return nil, ErrUnscripted
	}
	s, err := n.SuccFn()
	n.rec("GetSuccessors", "", fmt.Sprintf("%d,%v", len(s), err))
	return s, err
}
func (n *ScriptVNode) GetPredecessor() (chord.VNode, error) {
	n.rec("GetPredecessor", "", "")
	return nil, ErrUnscripted
}
func (n *ScriptVNode) RequestToJoin(chord.VNode) (chord.VNode, []chord.VNode, error) {
	return nil, nil, ErrUnscripted
}
func (n *ScriptVNode) FinishJoin(bool, bool) error      { return ErrUnscripted }
func (n *ScriptVNode) RequestToLeave(chord.VNode) error { return ErrUnscripted }
func (n *ScriptVNode) FinishLeave(bool, bool) error     { return ErrUnscripted }
func (n *ScriptVNode) Put(context.Context, []byte, []byte) error {
	n.rec("Put", "", "")
	return ErrUnscripted
}
func (n *ScriptVNode) Get(ctx context.Context, key []byte) ([]byte, error) {
	if n.GetFn == nil {
		n.rec("Get", string(key), "unscripted")
		return nil, ErrUnscripted
	}
	v, err := n.GetFn(ctx, string(key))
	n.rec("Get", string(key), fmt.Sprintf("%dB,%v", len(v), err))
	return v, err
}
func (n *ScriptVNode) Delete(context.Context, []byte) error {
	n.rec("Delete", "", "")
	return ErrUnscripted
}
func (n *ScriptVNode) PrefixAppend(context.Context, []byte, []byte) error {
	n.rec("PrefixAppend", "", "")
	return ErrUnscripted
}
func (n *ScriptVNode) PrefixList(context.Context, []byte) ([][]byte, error) {
	n.rec("PrefixList", "", "")
	return nil, ErrUnscripted
}
func (n *ScriptVNode) PrefixContains(context.Context, []byte, []byte) (bool, error) {
	n.rec("PrefixContains", "", "")
	return false, ErrUnscripted
}
func (n *ScriptVNode) PrefixRemove(context.Context, []byte, []byte) error {
	n.rec("PrefixRemove", "", "")
	return ErrUnscripted
}
func (n *ScriptVNode) Acquire(context.Context, []byte, time.Duration) (uint64, error) {
	n.rec("Acquire", "", "")
	return 0, ErrUnscripted
}
func (n *ScriptVNode) Renew(context.Context, []byte, time.Duration, uint64) (uint64, error) {
	n.rec("Renew", "", "")
	return 0, ErrUnscripted
}
func (n *ScriptVNode) Release(context.Context, []byte, uint64) error {
	n.rec("Release", "", "")
	return ErrUnscripted
}
func (n *ScriptVNode) Import(context.Context, [][]byte, []*protocol.KVTransfer) error {
	return ErrUnscripted
}
func (n *ScriptVNode) ListKeys(context.Context, []byte) ([]*protocol.KeyComposite, error) {
	return nil, ErrUnscripted
}

// IdentVNode is a successor-list entry: only its identity is ever read.
type IdentVNode struct {
	chord.VNode
	Ident *protocol.Node
}

func (n *IdentVNode) ID() uint64               { return n.Ident.GetId() }
func (n *IdentVNode) Identity() *protocol.Node { return n.Ident }

// ---------------------------------------------------------------- scripted transport

// FakeTransport is a transport.Transport whose DialStream / SendDatagram
// outcomes are scripted by the case; it records every call in order.
type FakeTransport struct {
	Ident *protocol.Node
	// Name distinguishes the tunnel transport from the chord transport in a
	// shared dial log.
	Name string
	// DialFn decides DialStream; nil = ErrUnscripted.
	DialFn func(ctx context.Context, peer *protocol.Node, kind protocol.Stream_Type) (net.Conn, error)
	// DatagramFn decides SendDatagram; nil = success.
	DatagramFn func(peer *protocol.Node, b []byte) error
	// Log, if set, is shared between transports (global order of dials).
	Log *CallLog

	accept chan *transport.StreamDelegate
	once   sync.Once
}

var _ transport.Transport = (*FakeTransport)(nil)

// CallLog is an ordered, concurrency-safe list of calls.
type CallLog struct {
	mu    sync.Mutex
	calls []Call
}

func (l *CallLog) Add(c Call) {
	l.mu.Lock()
	c.Seq = len(l.calls)
	l.calls = append(l.calls, c)
	l.mu.Unlock()
}

func (l *CallLog) Calls() []Call {
	l.mu.Lock()
	defer l.mu.Unlock()
	return append([]Call(nil), l.calls...)
}

func (t *FakeTransport) log() *CallLog {
	t.once.Do(func() {
		if t.Log == nil {
			t.Log = &CallLog{}
		}
	})
	return t.Log
}

func (t *FakeTransport) Identity() *protocol.Node { return t.Ident }

func (t *FakeTransport) DialStream(ctx context.Context, peer *protocol.Node, kind protocol.Stream_Type) (net.Conn, error) {
	if t.DialFn == nil {
		t.log().Add(Call{Op: t.Name + ".DialStream", Arg: peer.GetAddress(), Kind: kind.String(), Res: "unscripted"})
		return nil, ErrUnscripted
	}
	c, err := t.DialFn(ctx, peer, kind)
	res := "conn"
	if err != nil {
		res = "err:" + err.Error()
	}
	t.log().Add(Call{Op: t.Name + ".DialStream", Arg: fmt.Sprintf("%d/%s", peer.GetId(), peer.GetAddress()), Kind: kind.String(), Res: res})
	return c, err
}

// Feed hands a delegate to whoever consumes AcceptStream (the StreamRouter).
func (t *FakeTransport) Feed(d *transport.StreamDelegate) { t.acceptCh() <- d }

func (t *FakeTransport) acceptCh() chan *transport.StreamDelegate {
	t.log()
	if t.accept == nil {
		t.accept = make(chan *transport.StreamDelegate, 64)
	}
	return t.accept
}

// InitAccept must be called before the transport is shared between goroutines
// when AcceptStream/Feed are used.
func (t *FakeTransport) InitAccept() { t.acceptCh() }

func (t *FakeTransport) AcceptStream() <-chan *transport.StreamDelegate { return t.acceptCh() }
func (t *FakeTransport) ListConnected() []transport.ConnectedPeer       { return nil }
func (t *FakeTransport) SupportDatagram() bool                          { return true }
func (t *FakeTransport) ReceiveDatagram() <-chan *transport.DatagramDelegate {
	return make(chan *transport.DatagramDelegate)
}
func (t *FakeTransport) SendDatagram(peer *protocol.Node, b []byte) error {
	var err error
	if t.DatagramFn != nil {
		err = t.DatagramFn(peer, b)
	}
	res := "ok"
	if err != nil {
		res = "err:" + err.Error()
	}
	t.log().Add(Call{Op: t.Name + ".SendDatagram", Arg: fmt.Sprintf("%d/%s", peer.GetId(), peer.GetAddress()), Res: res})
	return err
}

// ---------------------------------------------------------------- conns with addresses

// AddrConn is a net.Conn that presents chosen local / remote addresses.
type AddrConn struct {
	net.Conn
	Local, Remote net.Addr
}

func (c *AddrConn) LocalAddr() net.Addr  { return c.Local }
func (c *AddrConn) RemoteAddr() net.Addr { return c.Remote }

// DeadConn is a connection that is only good for its addresses (handler-level
// delegations never read or write it).
type DeadConn struct{ Local, Remote net.Addr }

func (c *DeadConn) Read([]byte) (int, error)         { return 0, net.ErrClosed }
func (c *DeadConn) Write(b []byte) (int, error)      { return 0, net.ErrClosed }
func (c *DeadConn) Close() error                     { return nil }
func (c *DeadConn) LocalAddr() net.Addr              { return c.Local }
func (c *DeadConn) RemoteAddr() net.Addr             { return c.Remote }
func (c *DeadConn) SetDeadline(time.Time) error      { return nil }
func (c *DeadConn) SetReadDeadline(time.Time) error  { return nil }
func (c *DeadConn) SetWriteDeadline(time.Time) error { return nil }

// SeqAddr returns the n-th address of 10.0.0.0/8 (distinct IP per n).
func SeqAddr(n int) net.Addr {
	n++
	return &net.TCPAddr{IP: net.IPv4(10, byte(n>>16), byte(n>>8), byte(n)), Port: 40000 + n%20000}
}
