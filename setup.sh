#!/usr/bin/env bash
# Run once after a fresh restore (offline): warm the Go build cache for the
# harness + repository packages and the wazero compilation cache for SQLite.
set -u
ROOT="$(cd "$(dirname "${BASH_SOURCE[0]}")" && pwd)"
cd "$ROOT"
. tools/env.sh
mkdir -p .build/bin .build/logs .build/overlay .cache/wazero evidence replays
tools/mkoverlay.sh /repo .build/overlay-setup.json || exit 1
( cd harness && go build -tags verif -overlay "$ROOT/.build/overlay-setup.json" -o /dev/null ./lab/... ) || exit 1
# building every worker once makes each later ./vcheck an incremental rebuild
for d in harness/cmd/*/; do
  id="$(basename "$d")"
  ( cd harness && go build -tags verif -overlay "$ROOT/.build/overlay-setup.json" -o "$ROOT/.build/bin/$id" "./cmd/$id" ) || echo "setup: warm build of $id failed (vcheck will report it)" >&2
done
echo "setup done"
