#!/usr/bin/env bash
# Run once after a fresh restore (offline): warm the Go build cache for the
# harness + repository packages (every worker is built once, so each later
# ./vcheck is an incremental rebuild) and create the scratch/cache directories.
set -u
ROOT="$(cd "$(dirname "${BASH_SOURCE[0]}")" && pwd)"
cd "$ROOT"
. tools/env.sh
mkdir -p .build/bin .build/logs .build/overlay .cache/wazero evidence replays
tools/mkoverlay.sh /repo .build/overlay-setup.json || exit 1
( cd harness && go build -tags verif -overlay "$ROOT/.build/overlay-setup.json" ./lab/... ) || exit 1
ids=$(ls harness/cmd | tr 'a-z' 'A-Z')
printf '%s\n' $ids | VERIF_BUILD_ONLY=1 xargs -P 4 -I{} sh -c './vcheck {} quick >/dev/null 2>&1 || echo "setup: warm build of {} failed (vcheck will report it)" >&2'
echo "setup done"
