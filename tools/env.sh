# Build environment shared by every check (sourced).
# Default go + GOTOOLCHAIN=auto resolves the repository's "go 1.26.1" from the
# module cache offline. GOSUMDB must stay unset (the toolchain switch needs it).
export GOFLAGS=-mod=mod
export GOPROXY=off
export GOTOOLCHAIN=auto
unset GOSUMDB
export GOMAXPROCS="${GOMAXPROCS:-$(nproc)}"
