#!/usr/bin/env python3
"""One-shot helper used to add the single-line hook call sites to /repo (kept for the record)."""
import sys,re
def ins(path, anchor, line, where='after', occurrence=1):
    src=open(path).read().split('\n')
    hits=[i for i,l in enumerate(src) if anchor in l]
    if len(hits)<occurrence: sys.exit(f"anchor not found: {path}: {anchor}")
    i=hits[occurrence-1]
    indent=re.match(r'\s*',src[i]).group(0)
    if where=='after': src.insert(i+1, indent+line)
    elif where=='after_indent': src.insert(i+1, indent+'\t'+line)
    else: src.insert(i, indent+line)
    open(path,'w').write('\n'.join(src))
if __name__=='__main__':
    for spec in open(sys.argv[1]).read().strip().split('\n'):
        if not spec.strip() or spec.startswith('#'): continue
        path,where,occ,anchor,line=spec.split('|')
        ins(path,anchor,line,where,int(occ))
