#!/usr/bin/env python3
"""mkcost.py <allquick.log> <allthorough.log> — prints the markdown cost table of DESIGN.md section 7
from two sweep logs (lines: 'Cnn rc=<n> wall=<s>s SUMMARY property=.. evaluations=.. distinct=.. ..')."""
import re, sys
def load(p):
    out = {}
    try:
        for l in open(p):
            m = re.match(r'(C\d+) rc=(\d+) wall=(\d+)s .*?evaluations=(\d+) distinct=(\d+)', l)
            if m:
                out[m.group(1)] = (int(m.group(2)), int(m.group(3)), int(m.group(4)), int(m.group(5)))
    except FileNotFoundError:
        pass
    return out
q, t = load(sys.argv[1]), load(sys.argv[2]) if len(sys.argv) > 2 else {}
print('| property | quick wall incl. build (s) | quick evaluations | quick distinct | thorough wall (s) | thorough evaluations | thorough distinct |')
print('|---|---|---|---|---|---|---|')
for i in range(1, 52):
    k = 'C%02d' % i
    a, b = q.get(k), t.get(k)
    print('| %s | %s | %s | %s | %s | %s | %s |' % (k, a[1] if a else '', a[2] if a else '', a[3] if a else '', b[1] if b else '', b[2] if b else '', b[3] if b else ''))
