#!/usr/bin/env python3
"""Regenerates /verif/MANIFEST.json from harness/cmd/cNN/manifest.json files.
A property without a worker directory + manifest.json is listed under not_applicable."""
import json, os, subprocess, sys
ROOT=os.path.dirname(os.path.dirname(os.path.abspath(__file__)))
props=[json.loads(l) for l in open(os.path.join(ROOT,'properties.jsonl'))]
na_reasons={}
p=os.path.join(ROOT,'tools','not_applicable.json')
if os.path.exists(p): na_reasons=json.load(open(p))
checks=[]; na=[]
for pr in props:
    pid=pr['id']; d=os.path.join(ROOT,'harness','cmd',pid.lower())
    mf=os.path.join(d,'manifest.json')
    if os.path.exists(mf) and os.path.exists(os.path.join(d,'main.go')) and pid not in na_reasons:
        m=json.load(open(mf))
        checks.append({
            "property_id":pid,
            "quick_cmd":f"./vcheck {pid} quick",
            "thorough_cmd":f"./vcheck {pid} thorough",
            "evidence_file":f"/verif/evidence/{pid}.json",
            "replay_cmd_template":f"./vcheck {pid} --replay {{path}}",
            "engine":"vcheck",
            "level_claimed":{"category":m["category"],"text":m["text"],"design_ref":m.get("design_ref",f"DESIGN.md section 3, {pid}")},
            "level_note":m["note"],
            "technique":m["technique"],
        })
    else:
        na.append({"property_id":pid,"reason":na_reasons.get(pid,"no check is registered for this property yet (work in progress); nothing is claimed")})
hooks=subprocess.run(['git','-C','/repo','log','--format=%H %s','--grep=^verif hooks'],capture_output=True,text=True).stdout.strip().split('\n')
man={
 "version":1,
 "setup_cmd":"./setup.sh",
 "hooks":{
   "guard":"verif",
   "enable":"go build -tags verif -overlay /verif/.build/overlay-<id>.json (done by ./vcheck; harness module replaces go.miragespace.co/specter => /repo)",
   "baseline_off_cmd":"cd /repo && GOFLAGS=-mod=mod go test -json -vet=off -count=1 -timeout 25m ./...",
   "source_commits":[h.split(' ')[0] for h in hooks if h],
   "add_only":True,
 },
 "engines":[{"name":"vcheck","path":"/verif/vcheck","serves_properties":[c["property_id"] for c in checks],
   "kind_free_text":"bash runner: rebuilds one Go worker (harness/cmd/<id>) against /repo's working tree with -tags verif, runs it under a watchdog; the worker drives the real code with seeded workloads and decides with runtime monitors (reference models, invariants at hooks, recorded-history checkers, crash-image reopen oracles, the Go race detector)"}],
 "checks":checks,
 "not_applicable":na,
 "notes":"Technique family: runtime monitoring and sanitizers. Verdicts are three-valued (exit 0 held / 1 VIOLATION / 3 INCONCLUSIVE). known_findings.json lists open genuine defects (KNOWN-FINDING lines, exit 0) and fixed ones. See DESIGN.md.",
}
json.dump(man,open(os.path.join(ROOT,'MANIFEST.json'),'w'),indent=1)
print(f"{len(checks)} checks, {len(na)} not_applicable")
