#!/usr/bin/env python3
"""mkmutant.py <out.diff> <repo-relative-file> <old> <new> [count]  — writes a unified diff replacing old by new (exact text, \\n and \\t escapes allowed)."""
import sys,difflib
out,rel,old,new=sys.argv[1:5]
old=old.encode().decode('unicode_escape'); new=new.encode().decode('unicode_escape')
src=open('/repo/'+rel).read()
assert src.count(old)>=1, "old text not found"
dst=src.replace(old,new,1)
d=difflib.unified_diff(src.splitlines(True),dst.splitlines(True),'a/'+rel,'b/'+rel)
open(out,'w').write(''.join(d))
print(open(out).read())
