#!/usr/bin/env bash
# mkoverlay.sh <repo> <out.json> [extra...]
# Writes a go build -overlay file:
#  * always: a placeholder tun/client/ui/build/index.html (the pinned tree embeds
#    a UI bundle that is not in the repository, so tun/client does not compile
#    without it);
#  * extra "clock": kv/memory/lease.go and kv/sqlite3/lease.go regenerated from the
#    repository's *current* text with time.Now() replaced by a settable clock.
#  * extra "clockfile:<repo-relative .go file>:<package>": the same for any one file (C31:
#    util/hashcash/hashcash.go and spec/pow/pow.go).
#  * extra "file:<repo-relative path>=<verif-relative source>": adds one overlay-only
#    file (used by C47 to export cmd/internal/listen through a shim package).
set -eu
REPO="$1"; OUT="$2"; shift 2
ROOT="$(cd "$(dirname "${BASH_SOURCE[0]}")/.." && pwd)"
D="$ROOT/.build/overlay"; mkdir -p "$D"
[ -f "$D/index.html" ] || echo '<!doctype html><title>verif placeholder</title>' > "$D/index.html"
entries="\"$REPO/tun/client/ui/build/index.html\": \"$D/index.html\""
for x in "$@"; do
  case "$x" in
    clock)
      tag="$(basename "$OUT" .json)"
      for pkg in memory sqlite3; do
        src="$REPO/kv/$pkg/lease.go"
        gen="$D/$tag-$pkg-lease.go"
        sed 's/time\.Now()/VerifNow()/g' "$src" > "$gen"
        clk="$D/$tag-$pkg-clock.go"
        cat > "$clk" <<EOG
package $pkg

import "time"

// VerifNow is the clock the lease code reads (overlay-only file).
var VerifNow = time.Now
EOG
        entries="$entries, \"$src\": \"$gen\", \"$REPO/kv/$pkg/verif_clock_overlay.go\": \"$clk\""
      done;;
    clockfile:*:*)
      # clockfile:<repo-relative .go file>:<package name>: that file regenerated from the
      # repository's *current* text with time.Now() / time.Since(x) reading a settable clock
      # (VerifNow, an overlay-only variable of the package; default time.Now)
      spec="${x#clockfile:}"; rel="${spec%%:*}"; pkg="${spec##*:}"
      tag="$(basename "$OUT" .json)"
      src="$REPO/$rel"
      [ -f "$src" ] || { echo "overlay clock source $src missing" >&2; exit 1; }
      gen="$D/$tag-$(echo "$rel" | tr '/' '_')"
      sed -e 's/time\.Now()/VerifNow()/g' -e 's/time\.Since(\([^()]*\))/VerifNow().Sub(\1)/g' "$src" > "$gen"
      clk="$D/$tag-$pkg-clockvar.go"
      cat > "$clk" <<EOG
package $pkg

import "time"

// VerifNow is the clock this package reads (overlay-only file).
var VerifNow = time.Now
EOG
      entries="$entries, \"$src\": \"$gen\", \"$(dirname "$src")/verif_clock_overlay.go\": \"$clk\"";;
    file:*=*)
      # file:<path relative to the repo>=<path relative to /verif>: an overlay-only
      # file (e.g. an export shim for an internal package); nothing is written to the repo
      spec="${x#file:}"; dst="${spec%%=*}"; srcf="${spec#*=}"
      [ -f "$ROOT/$srcf" ] || { echo "overlay source $ROOT/$srcf missing" >&2; exit 1; }
      entries="$entries, \"$REPO/$dst\": \"$ROOT/$srcf\"";;
    *) echo "unknown overlay extra $x" >&2; exit 1;;
  esac
done
echo "{\"Replace\": {$entries}}" > "$OUT"
