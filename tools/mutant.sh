#!/usr/bin/env bash
# mutant.sh <patch.diff> <ID> [tier]   — apply a patch to a scratch copy of /repo,
# run the check for <ID> against it (VERIF_REPO), remove the copy. Prints the verdict.
set -u
ROOT="$(cd "$(dirname "${BASH_SOURCE[0]}")/.." && pwd)"
PATCH="$(readlink -f "$1")"; ID="$2"; TIER="${3:-quick}"
S="$(mktemp -d /tmp/vmut.XXXXXX)"
trap 'rm -rf "$S"' EXIT
rsync -a --exclude .git /repo/ "$S/repo/"
if ! (cd "$S/repo" && patch -p1 --no-backup-if-mismatch -s < "$PATCH"); then echo "PATCH-FAILED $PATCH"; exit 2; fi
VERIF_REPO="$S/repo" "$ROOT/vcheck" "$ID" "$TIER"
rc=$?
echo "MUTANT $(basename "$PATCH") $ID rc=$rc"
exit $rc
