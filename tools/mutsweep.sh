#!/usr/bin/env bash
# mutsweep.sh [parallel] — run every self-test mutant against its property's quick check
# (and the thorough check when quick misses); prints one line per mutant.
ROOT="$(cd "$(dirname "${BASH_SOURCE[0]}")/.." && pwd)"; cd "$ROOT"
P="${1:-3}"
run_one() {
  f="$1"; b=$(basename "$f" .diff); id="${b%%-*}"
  out=$(VERIF_MAX_PRINT=3 tools/mutant.sh "$f" "$id" quick 2>&1); rc=$(echo "$out" | grep -o 'rc=[0-9]*$' | tail -1)
  tier=quick
  if [ "$rc" != "rc=1" ] && ! echo "$out" | grep -q PATCH-FAILED; then
    out=$(VERIF_MAX_PRINT=3 tools/mutant.sh "$f" "$id" thorough 2>&1); rc=$(echo "$out" | grep -o 'rc=[0-9]*$' | tail -1); tier=thorough
  fi
  keys=$(echo "$out" | grep -o 'key=[^ ]*' | sort -u | head -3 | tr '\n' ' ')
  pf=""; echo "$out" | grep -q PATCH-FAILED && pf="PATCH-FAILED"
  echo "MUT $id $b $tier $rc $pf $keys"
}
export -f run_one
ls mutants/*.diff | xargs -P "$P" -I{} bash -c 'run_one {}'
