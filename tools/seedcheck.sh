#!/usr/bin/env bash
# seedcheck.sh <ID> [srcdir] [destname]  — confirm an independently seeded change:
#   applies to /repo HEAD, builds, touched packages' own tests pass, the demonstration
#   fails with the change and passes without it; then runs the check for <ID> on it.
# Prints one RESULT line; writes /verif/seeded/<ID>/{patch.diff,demo/,meta.json}.
set -u
ROOT="$(cd "$(dirname "${BASH_SOURCE[0]}")/.." && pwd)"
ID="$1"; SRC="${2:-/tmp/seedout/$ID}"; DEST="${3:-$ID}"
. "$ROOT/tools/env.sh"
WT="$(mktemp -d /tmp/sc-$ID.XXXX)"; rmdir "$WT"
cleanup() { git -C /repo worktree remove --force "$WT" >/dev/null 2>&1; rm -rf "$WT"; }
trap cleanup EXIT
git -C /repo worktree add -q --detach "$WT" HEAD || { echo "RESULT $ID worktree-failed"; exit 2; }
OVL="$WT.overlay.json"; echo "{\"Replace\": {\"$WT/tun/client/ui/build/index.html\": \"$ROOT/.build/overlay/index.html\"}}" > "$OVL"
cd "$WT"
applies=yes; git apply "$SRC/patch.diff" 2>/tmp/sc-$ID.apply.err || applies=no
if [ $applies = no ]; then
  # patches were made against an older HEAD: try 3-way / fuzzy
  if patch -p1 --no-backup-if-mismatch -s < "$SRC/patch.diff" >/dev/null 2>&1; then applies=fuzzy; else echo "RESULT $ID patch-does-not-apply $(head -c 200 /tmp/sc-$ID.apply.err | tr '\n' ' ')"; rm -f "$OVL"; exit 3; fi
fi
git diff > "$WT.patch"   # the change as it applies to the current HEAD
pkgs=$(git diff --name-only | grep '\.go$' | xargs -n1 dirname | sort -u | sed 's#^#./#')
build=ok; go build -overlay "$OVL" ./... >/tmp/sc-$ID.build.log 2>&1 || build=FAIL
tests=ok
if [ $build = ok ]; then
  # touched packages and the usual dependants
  deps="$pkgs"
  for p in $pkgs; do case $p in ./spec/*|./kv/*|./util/*) deps="$deps ./chord ./tun/server ./gateway ./acme ./pki";; esac; done
  deps=$(echo $deps | tr ' ' '\n' | sort -u | tr '\n' ' ')
  go test -overlay "$OVL" -vet=off -count=1 -timeout 6m $deps >/tmp/sc-$ID.test.log 2>&1 || tests=FAIL
fi
# demonstration
demo_with=none; demo_without=none
if [ -d "$SRC/demo" ] && [ $build = ok ]; then
  (cd "$SRC/demo" && find . -type f) | while read f; do mkdir -p "$WT/$(dirname $f)"; cp "$SRC/demo/$f" "$WT/$f"; done
  dpk=$(cd "$SRC/demo" && find . -name '*_test.go' | xargs -n1 dirname | sort -u)
  names=$(cd "$SRC/demo" && grep -h -o '^func Test[A-Za-z0-9_]*' $(find . -name '*_test.go') 2>/dev/null | sed 's/func //' | sort -u | tr '\n' '|' | sed 's/|$//')
  if [ -n "$names" ]; then
    demo_with=pass; go test -overlay "$OVL" -vet=off -count=1 -timeout 10m -run "^($names)\$" $dpk >/tmp/sc-$ID.demo-with.log 2>&1 || demo_with=fail
    git apply -R "$WT.patch" 2>/dev/null
    demo_without=pass; go test -overlay "$OVL" -vet=off -count=1 -timeout 10m -run "^($names)\$" $dpk >/tmp/sc-$ID.demo-without.log 2>&1 || demo_without=fail
  else
    demo_with=not-a-go-test; demo_without=not-a-go-test
  fi
fi
mkdir -p "$ROOT/seeded/$DEST"
if [ "$(readlink -f "$SRC")" != "$(readlink -f "$ROOT/seeded/$DEST")" ]; then cp "$WT.patch" "$ROOT/seeded/$DEST/patch.diff"; rm -rf "$ROOT/seeded/$DEST/demo"; [ -d "$SRC/demo" ] && cp -r "$SRC/demo" "$ROOT/seeded/$DEST/demo"; [ -f "$SRC/notes.md" ] && cp "$SRC/notes.md" "$ROOT/seeded/$DEST/notes.md"; fi
cd "$ROOT"
# the check
check=skipped
if [ $build = ok ]; then
  out=$(VERIF_MAX_PRINT=3 tools/mutant.sh "$ROOT/seeded/$DEST/patch.diff" "$ID" quick 2>&1); rc=$?
  keys=$(echo "$out" | grep -o 'key=[^ ]*' | sort -u | head -5 | tr '\n' ' ')
  case $rc in 1) check="DETECTED $keys";; 0) check="missed";; 3) check="inconclusive $(echo "$out" | grep INCONCL | head -1 | cut -c1-160)";; *) check="rc=$rc";; esac
fi
echo "RESULT $DEST applies=$applies build=$build tests=$tests demo_with_change=$demo_with demo_without_change=$demo_without check_quick=$check"
rm -f "$OVL" "$WT.patch"
