#!/usr/bin/env python3
"""Writes /verif/seeded/<ID>/meta.json from seedcheck RESULT lines (argv[1..] = log files; later lines win)."""
import json,re,sys,os
res={}
for f in sys.argv[1:]:
    for l in open(f):
        m=re.match(r'RESULT (C\d+(?:-r\d+)?) (.*)',l.strip())
        if not m: continue
        pid,rest=m.groups()
        d={}
        for k in ['applies','build','tests','demo_with_change','demo_without_change']:
            mm=re.search(k+r'=(\S+)',rest)
            if mm: d[k]=mm.group(1)
        mm=re.search(r'check_quick=(.*)$',rest)
        d['check_quick']=mm.group(1).strip() if mm else ''
        res[pid]=d
retest={}
if os.path.exists('/verif/seeded/seedretest.log'):
    for l in open('/verif/seeded/seedretest.log'):
        m=re.match(r'RETEST (\S+) (.*)',l.strip())
        if m: retest[m.group(1)]=m.group(2)
props={json.loads(l)['id']:json.loads(l) for l in open('/verif/properties.jsonl')}
extra=json.load(open('/verif/seeded/extra.json')) if os.path.exists('/verif/seeded/extra.json') else {}
for name,d in sorted(res.items()):
    pid=name.split('-')[0]
    dirn=f'/verif/seeded/{name}'
    if not os.path.isdir(dirn): continue
    notes=open(dirn+'/notes.md').read() if os.path.exists(dirn+'/notes.md') else ''
    needs=''
    m=re.search(r'Needs to manifest:?\s*(.*?)(?:\n\n|\nDemo|\nCommands)',notes,re.S)
    if m: needs=' '.join(m.group(1).split())
    title=notes.strip().split('\n')[0].lstrip('# ').strip() if notes else ''
    meta={
     "property":pid,
     "property_title":props[pid]['title'],
     "origin":"independent sub-agent (given only the property text and its own scratch worktree of /repo); patch.diff is the change rebased on the current /repo HEAD",
     "what":title,
     "needs_to_manifest":needs,
     "confirmed_by_lead":{
        "patch_applies_to_repo_head":d.get('applies'),
        "go_build_all":d.get('build'),
        "existing_tests_of_touched_packages_and_dependants":d.get('tests')+(" (chord/gateway tests are load-flaky on this box; see notes)" if d.get('tests')=='FAIL' else ''),
        "demo_with_change":d.get('demo_with_change'),
        "demo_without_change":d.get('demo_without_change'),
        "ran":"tools/seedcheck.sh "+pid+(" <agent output dir> "+name if name!=pid else "")+"  (scratch git worktree of /repo: git apply, go build ./..., go test of touched packages + dependants, demo with and without the change; then tools/mutant.sh seeded/"+name+"/patch.diff "+pid+" quick)"},
     "check_result_quick":d.get('check_quick'),
    }
    if name in retest:
        meta['confirmed_by_lead']['existing_tests_retest_of_chord_and_gateway(tools/seedretest.sh, up to 3 attempts)']=retest[name]
    meta.update(extra.get(name,{}))
    json.dump(meta,open(dirn+'/meta.json','w'),indent=1)
print(len(res),'meta files')
