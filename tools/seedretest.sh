#!/usr/bin/env bash
# seedretest.sh <seeded-dir-name> <pkg>... — re-run the given packages' own tests with a seeded
# change applied (scratch worktree), up to 3 attempts: the chord and gateway suites have tests
# that fail on the UNPATCHED tree as well when the machine is saturated (TestConcurrentLeaveKV,
# TestLotsOfNodes, TestH3ExtraApexIndex ...), so a failure recorded by seedcheck.sh under load
# is re-examined here. Prints RETEST <name> <pass|FAIL> attempts=<n>.
set -u
ROOT="$(cd "$(dirname "${BASH_SOURCE[0]}")/.." && pwd)"
NAME="$1"; shift
. "$ROOT/tools/env.sh"
WT="$(mktemp -d /tmp/srt-$NAME.XXXX)"; rmdir "$WT"
trap 'git -C /repo worktree remove --force "$WT" >/dev/null 2>&1; rm -rf "$WT" "$WT.overlay.json"' EXIT
git -C /repo worktree add -q --detach "$WT" HEAD || exit 2
echo "{\"Replace\": {\"$WT/tun/client/ui/build/index.html\": \"$ROOT/.build/overlay/index.html\"}}" > "$WT.overlay.json"
cd "$WT" && git apply "$ROOT/seeded/$NAME/patch.diff" || { echo "RETEST $NAME patch-failed"; exit 3; }
for a in 1 2 3; do
  if go test -overlay "$WT.overlay.json" -vet=off -count=1 -timeout 12m "$@" >/tmp/srt-$NAME.log 2>&1; then echo "RETEST $NAME pass attempts=$a pkgs=$*"; exit 0; fi
done
echo "RETEST $NAME FAIL attempts=3 pkgs=$* $(grep -E '^--- FAIL' /tmp/srt-$NAME.log | head -3 | tr '\n' ' ')"
